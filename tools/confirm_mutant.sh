#!/bin/bash
# tools/confirm_mutant.sh <worktree> <diff> <demo_test.go> <pkgdir> <run-regexp> [-race]
# Confirms in a scratch worktree: demo passes on the clean tree, fails with the change;
# with the change the tree builds and the package's existing tests pass.
wt="$1"; diff="$2"; demo="$3"; pkg="$4"; re="$5"; race="$6"
export PATH=/opt/veriftools/go1.26.8/bin:$PATH GOFLAGS=-mod=mod GOPROXY=off GOSUMDB=off GOTOOLCHAIN=local
cd "$wt" || exit 2
cp "$demo" "$pkg/zz_verif_demo_test.go"
go test -vet=off -count=1 -timeout 300s $race -run "$re" "./$pkg/" >/tmp/confirm_clean.log 2>&1; clean=$?
git apply "$diff" || { echo "APPLY-FAILED"; rm -f "$pkg/zz_verif_demo_test.go"; exit 2; }
go test -vet=off -count=1 -timeout 300s $race -run "$re" "./$pkg/" >/tmp/confirm_mut.log 2>&1; mut=$?
rm -f "$pkg/zz_verif_demo_test.go"
go build ./... >/tmp/confirm_build.log 2>&1; build=$?
go test -vet=off -count=1 -timeout 600s ./... 2>&1 | grep -E "^(FAIL|---)" | grep -v "TestDiagVendorCompileAuthStringCorrupt\|github.com/php-any/origami/parser\b\|^FAIL$" >/tmp/confirm_suite.log; 
git apply -R "$diff"
echo "demo-clean-exit=$clean demo-mutant-exit=$mut build-exit=$build suite-new-failures=$(wc -l </tmp/confirm_suite.log)"
