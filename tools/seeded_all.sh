#!/bin/bash
# tools/seeded_all.sh [prop...] : run every stored seeded change against its property's check; print a table.
cd /verif
props="$@"; [ -z "$props" ] && props=$(ls seeded)
for p in $props; do
  for d in seeded/$p/*/; do
    [ -f "$d/patch.diff" ] || continue
    name=$(basename $d)
    out=$(tools/mutrun.sh /verif/$d/patch.diff $p 2>&1)
    rc=$(echo "$out" | grep -o "exit=[0-9]*" | head -1)
    nv=$(echo "$out" | grep -c "^VIOLATION")
    echo "$p $name $rc violations=$nv"
  done
done
