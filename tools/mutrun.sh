#!/bin/bash
# tools/mutrun.sh <patch.diff> <prop> [<prop>...] : apply a seeded change to /repo, run the checks, undo it.
diff="$1"; shift
cd /repo || exit 2
if [ -n "$(git status --porcelain --untracked-files=no)" ]; then echo "/repo is dirty"; exit 2; fi
git apply "$diff" || { echo "patch does not apply"; exit 2; }
for p in "$@"; do
  out=$(cd /verif && ./check "$p" 2>&1)
  rc=$?
  echo "== $p exit=$rc"
  echo "$out" | grep -E "^(VIOLATION|UNDECIDED|ENGINE|property=)" | cut -c1-260 | head -8
done
git checkout -- . 
