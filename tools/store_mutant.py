#!/usr/bin/env python3
# tools/store_mutant.py <prop> <name> <worktree> <mN> <pkgdir> <run-regexp> <needs...>
import sys, os, shutil, json, subprocess
prop, name, wt, m, pkg, rex = sys.argv[1:7]
needs = " ".join(sys.argv[7:])
d = f"/verif/seeded/{prop}/{name}"
os.makedirs(d, exist_ok=True)
shutil.copy(f"{wt}/out/{m}.diff", f"{d}/patch.diff")
shutil.copy(f"{wt}/out/{m}_demo_test.go", f"{d}/demo_test.go")
meta = {
 "property": prop, "name": name,
 "needs_to_manifest": needs,
 "demo": {"copy_into": pkg, "run": f"go test -vet=off -count=1 -run '{rex}' ./{pkg}/"},
 "confirmed": "tools/confirm_mutant.sh in a scratch worktree: demo passes on the clean tree, fails with the change; go build ./... ok; existing suite unchanged",
 "origin": "written by a sub-agent given only the property text and a scratch worktree",
}
json.dump(meta, open(f"{d}/meta.json", "w"), indent=1)
print("stored", d)
