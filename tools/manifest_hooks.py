#!/usr/bin/env python3
# keep MANIFEST.hooks.source_commits equal to the list of "verif hooks:" commits of /repo (oldest first)
import json, subprocess
m = json.load(open('/verif/MANIFEST.json'))
hs = subprocess.run("git -C /repo log --reverse --format='%h %s' | grep -E ' verif( hooks|:)' | cut -d' ' -f1", shell=True, capture_output=True, text=True).stdout.split()
m['hooks']['source_commits'] = hs
json.dump(m, open('/verif/MANIFEST.json', 'w'), indent=1, ensure_ascii=False)
print(len(hs), 'hook commits')
