#!/bin/bash
# run the pinned test suite of /repo (or $1) with the guard off; prints failing tests
dir=${1:-/repo}
export PATH=/opt/veriftools/go1.26.8/bin:$PATH GOFLAGS=-mod=mod GOPROXY=off GOSUMDB=off GOTOOLCHAIN=local
cd "$dir" && go test -vet=off -count=1 -timeout 25m ./... 2>&1 | grep -v "^ok\|no test files" | grep -- "--- FAIL\|^FAIL\|panic" | sort | uniq -c
