#!/bin/bash
# run every registered check (tier $1, default quick), print the summary line of each
tier=${1:-quick}
cd /verif
for id in $(python3 -c "import json;print(' '.join(c['property_id'] for c in json.load(open('MANIFEST.json'))['checks']))"); do
  out=$(./check $id --tier $tier 2>&1); rc=$?
  echo "rc=$rc $(echo "$out" | grep '^property=' | tail -1)"
  echo "$out" | grep "^VIOLATION\|^ENGINE" | cut -c1-220
done
