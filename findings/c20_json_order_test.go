package php

import (
	"encoding/json"
	"testing"

	"github.com/php-any/origami/data"
)

// Witness for C20/C14: json_decode($s, true) built the array by ranging over a Go map,
// so the keys of a decoded object came out in a different order from run to run.
func TestVerifJsonDecodeKeepsKeyOrder(t *testing.T) {
	const js = `{"b":1,"a":2,"c":3,"d":4,"e":5,"f":6,"g":7,"h":8}`
	for run := 0; run < 50; run++ {
		v, err := goJsonDecode(js)
		if err != nil {
			t.Fatal(err)
		}
		got := ""
		for _, z := range v.(*data.ArrayValue).List {
			got += z.Name
		}
		if got != "bacdefgh" {
			t.Fatalf("run %d: keys enumerated as %q, source order is %q", run, got, "bacdefgh")
		}
	}
}

// The token-stream decoder accepts exactly what encoding/json accepts and yields the same values.
func TestVerifJsonDecodeAgreesWithEncodingJson(t *testing.T) {
	inputs := []string{`1`, `0`, `1.5`, `1e21`, `"x"`, `"é\n"`, `true`, `null`, `[]`, `{"k":{}}`, `[1,[2,[3]],{"a":[]}]`,
		`{"a":1,"a":2}`, ` [1] `, `[1,]`, `{"a":1,}`, `[1 2]`, `{"a" 1}`, `{1:2}`, `[`, `]`, `{"a":`, `1 2`, `tru`, `"abc`, ``, `[1]x`, `{"a":{"b":{"c":[1,2,{"d":null}]}}}`}
	for _, in := range inputs {
		var ref interface{}
		refErr := json.Unmarshal([]byte(in), &ref)
		v, err := goJsonDecode(in)
		if (refErr == nil) != (err == nil) {
			t.Errorf("%q: encoding/json err=%v, goJsonDecode err=%v", in, refErr, err)
			continue
		}
		if err == nil {
			refBytes, _ := json.Marshal(normalize(ref))
			gotBytes, _ := json.Marshal(toGo(v))
			if string(refBytes) != string(gotBytes) {
				t.Errorf("%q: value %s, encoding/json gives %s", in, gotBytes, refBytes)
			}
		}
	}
}

func toGo(v data.Value) interface{} {
	switch x := v.(type) {
	case *data.NullValue:
		return nil
	case *data.BoolValue:
		return x.Value
	case *data.IntValue:
		return float64(x.Value)
	case *data.FloatValue:
		return x.Value
	case *data.StringValue:
		return x.Value
	case *data.ArrayValue:
		keyed := false
		for _, z := range x.List {
			if z.Name != "" {
				keyed = true
			}
		}
		if keyed || len(x.List) == 0 {
			if len(x.List) == 0 {
				return "<empty>"
			}
			m := map[string]interface{}{}
			for _, z := range x.List {
				m[z.Name] = toGo(z.Value)
			}
			return m
		}
		out := []interface{}{}
		for _, z := range x.List {
			out = append(out, toGo(z.Value))
		}
		return out
	}
	return nil
}

// normalize maps empty JSON arrays/objects to one marker: an empty origami array does not say which it was.
func normalize(v interface{}) interface{} {
	switch x := v.(type) {
	case []interface{}:
		if len(x) == 0 {
			return "<empty>"
		}
		out := make([]interface{}, len(x))
		for i := range x {
			out[i] = normalize(x[i])
		}
		return out
	case map[string]interface{}:
		if len(x) == 0 {
			return "<empty>"
		}
		out := map[string]interface{}{}
		for k, e := range x {
			out[k] = normalize(e)
		}
		return out
	}
	return v
}
