package http

import (
	httpsrc "net/http"
	"net/http/httptest"
	"os"
	"path/filepath"
	"testing"

	"github.com/php-any/origami/data"
	"github.com/php-any/origami/node"
	"github.com/php-any/origami/parser"
	"github.com/php-any/origami/runtime"
	"github.com/php-any/origami/std"
	"github.com/php-any/origami/std/php"
	"github.com/php-any/origami/utils"
)

type findingHtmlCapture struct{ mux *httpsrc.ServeMux }

func (f *findingHtmlCapture) Call(ctx data.Context) (data.GetValue, data.Control) {
	m, err := utils.ConvertFromIndex[*httpsrc.ServeMux](ctx, 0)
	if err != nil {
		return nil, utils.NewThrow(err)
	}
	f.mux = m
	return nil, nil
}
func (f *findingHtmlCapture) GetName() string { return "finding_html_capture" }
func (f *findingHtmlCapture) GetParams() []data.GetValue {
	return []data.GetValue{node.NewParameter(nil, "s", 0, nil, nil)}
}
func (f *findingHtmlCapture) GetVariables() []data.Variable {
	return []data.Variable{node.NewVariable(nil, "s", 0, nil)}
}

// status(404) followed by html("hi") with no status argument: the client receives 404 (the last status set
// before the terminal call); html("hi", 201) still sets 201; html("hi") alone answers 200.
func TestFindingC13HtmlKeepsPendingStatus(t *testing.T) {
	vm := runtime.NewVM(parser.NewParser())
	std.Load(vm)
	php.Load(vm)
	Load(vm)
	capt := &findingHtmlCapture{}
	vm.AddFunc(capt)
	file := filepath.Join(t.TempDir(), "s.php")
	script := `<?php
$s = new Net\Http\Server("127.0.0.1", 0);
$s->get("/a", function($r, $w) { $w->status(404); $w->html("hi"); });
$s->get("/b", function($r, $w) { $w->status(404); $w->html("hi", 201); });
$s->get("/c", function($r, $w) { $w->html("hi"); });
finding_html_capture($s);
`
	if err := os.WriteFile(file, []byte(script), 0o644); err != nil {
		t.Fatal(err)
	}
	if _, acl := vm.LoadAndRun(file); acl != nil {
		t.Fatalf("script failed: %v", acl.AsString())
	}
	for _, tc := range []struct {
		path string
		want int
	}{{"/a", 404}, {"/b", 201}, {"/c", 200}} {
		w := httptest.NewRecorder()
		capt.mux.ServeHTTP(w, httptest.NewRequest("GET", tc.path, nil))
		if w.Code != tc.want || w.Body.String() != "hi" {
			t.Errorf("%s: status %d body %q, want %d \"hi\"", tc.path, w.Code, w.Body.String(), tc.want)
		}
	}
}
