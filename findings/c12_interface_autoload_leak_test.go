package runtime

import (
	"os"
	"path/filepath"
	"testing"

	"github.com/php-any/origami/parser"
)

// Witness for the failed frame obligation
//   (*runtime.TempVM).GetOrLoadInterface:frame:call vm.Base.GetOrLoadInterface#1   (C12)
// An interface autoloaded through a temporary VM is registered in the *base* VM
// (TempVM.GetOrLoadInterface delegates to Base.GetOrLoadInterface, which loads with
// the base parser), so it stays resolvable by the base VM and by every other TempVM.
func TestVerifTempVMInterfaceAutoloadLeak(t *testing.T) {
	dir := t.TempDir()
	if err := os.WriteFile(filepath.Join(dir, "Greeter.php"), []byte("<?php\nnamespace App;\ninterface Greeter { public function hi(); }\n"), 0o644); err != nil {
		t.Fatal(err)
	}
	p := parser.NewParser()
	base := NewVM(p).(*VM)
	base.AddNamespace("App", dir)

	if _, ok := base.GetInterface("App\\Greeter"); ok {
		t.Fatal("precondition: base must not know App\\Greeter yet")
	}
	t1 := NewTempVM(base).(*TempVM)
	t1.PrepareParse(p)
	t2 := NewTempVM(base).(*TempVM)
	t2.PrepareParse(p)

	if _, acl := t1.GetOrLoadInterface("App\\Greeter"); acl != nil {
		t.Fatalf("autoload through the temporary VM failed: %v", acl)
	}
	if _, ok := base.GetInterface("App\\Greeter"); ok {
		t.Errorf("base VM now resolves App\\Greeter: a definition made through a temporary VM leaked into the base VM")
	}
	if _, ok := t2.GetInterface("App\\Greeter"); ok {
		t.Errorf("another temporary VM now resolves App\\Greeter")
	}
}
