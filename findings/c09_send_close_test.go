package channel

import (
	"testing"
	"time"

	"github.com/php-any/origami/data"
)

// Witness for the open finding of C09: Channel.Send tests `closed` and then sends
// without any synchronisation with Close (obligations Send:shared-read:Channel.closed,
// Close:shared-write:Channel.closed). A sender parked in the Go send (unbuffered
// channel, no receiver yet) is past the test; a concurrent Close then makes the
// parked send panic with "send on closed channel", which would kill the interpreter.
func TestVerifSendCloseWindow(t *testing.T) {
	c := NewChannel()
	c.Construct(nil, nil)
	got := make(chan interface{}, 1)
	go func() {
		defer func() { got <- recover() }()
		c.Send(data.NewIntValue(1))
	}()
	time.Sleep(100 * time.Millisecond) // the sender is now blocked inside `c.channel <- value`
	c.Close()
	select {
	case r := <-got:
		if r != nil {
			t.Fatalf("concurrent Send/Close crashed: %v", r)
		}
	case <-time.After(2 * time.Second):
		t.Fatalf("sender still blocked after Close")
	}
}
