package runtime_test

import (
	"os"
	"path/filepath"
	"testing"

	"github.com/php-any/origami/data"
	"github.com/php-any/origami/parser"
	"github.com/php-any/origami/runtime"
	"github.com/php-any/origami/std"
	"github.com/php-any/origami/std/php"
)

func findingRunCtor(t *testing.T, vm data.VM, dir, name, src string) string {
	t.Helper()
	f := filepath.Join(dir, name)
	if err := os.WriteFile(f, []byte(src), 0o644); err != nil {
		t.Fatal(err)
	}
	v, acl := vm.LoadAndRun(f)
	if acl != nil {
		return "ACL:" + acl.AsString()
	}
	if s, ok := v.(data.AsString); ok {
		return s.AsString()
	}
	return "<no value>"
}

type findingMixedFields struct {
	Name   string
	secret int
	Age    int
}

func (m *findingMixedFields) Describe() string { return m.Name }

// A registered struct whose unexported field precedes an exported one: `new T("a", 41)` must not bring the
// interpreter down (it used to die with a fatal index out of range: constructor parameters were numbered by
// field position, the call frame is sized by the number of exported fields).
func TestFindingC17ConstructorWithUnexportedFieldInBetween(t *testing.T) {
	dir := t.TempDir()
	b := runtime.NewVM(parser.NewParser())
	std.Load(b)
	php.Load(b)
	b.SetThrowControl(func(acl data.Control) { t.Errorf("uncaught: %s", acl.AsString()) })
	vm := b.(*runtime.VM)
	_ = (&findingMixedFields{}).secret
	if acl := vm.RegisterReflectClass("Mixed", &findingMixedFields{}); acl != nil {
		t.Fatalf("register: %s", acl.AsString())
	}
	got := findingRunCtor(t, vm, dir, "m.php", "<?php\n$o = new Mixed(\"a\", 41);\nreturn $o->Describe();\n")
	if got != "a" {
		t.Errorf("new Mixed(\"a\", 41)->Describe(): %s, want a", got)
	}
}
