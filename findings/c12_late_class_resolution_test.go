package runtime

import (
	"os"
	"path/filepath"
	"testing"

	"github.com/php-any/origami/data"
	"github.com/php-any/origami/parser"
)

// Shared code (parsed once on the base VM) instantiates / statically calls / reads a static property of a class
// that each temporary VM defines for itself.
func TestVerifLateClassResolutionAcrossTempVMs(t *testing.T) {
	dir := t.TempDir()
	write := func(name, src string) string {
		p := filepath.Join(dir, name)
		if err := os.WriteFile(p, []byte(src), 0o644); err != nil {
			t.Fatal(err)
		}
		return p
	}
	shared := write("shared.php", "<?php\nfunction make() { $w = new Widget(); return $w->id(); }\nfunction viaStatic() { return Widget::sid(); }\nfunction viaProp() { return Widget::$tag; }\n")
	defA := write("a.php", "<?php\nclass Widget { public static $tag = 'A'; function id() { return 'A'; } static function sid() { return 'A'; } }\n")
	defB := write("b.php", "<?php\nclass Widget { public static $tag = 'B'; function id() { return 'B'; } static function sid() { return 'B'; } }\n")
	use := func(n, body string) string { return write(n, "<?php\nreturn "+body+";\n") }

	p := parser.NewParser()
	base := NewVM(p).(*VM)
	if _, acl := base.LoadAndRun(shared); acl != nil {
		t.Fatalf("shared: %v", acl)
	}
	run := func(def string, uses ...string) []string {
		tv := NewTempVM(base).(*TempVM)
		if _, acl := tv.LoadAndRun(def); acl != nil {
			t.Fatalf("def: %v", acl.AsString())
		}
		var out []string
		for _, u := range uses {
			v, acl := tv.LoadAndRun(u)
			if acl != nil {
				t.Fatalf("use %s: %v", u, acl.AsString())
			}
			if vv, ok := v.(data.Value); ok {
				out = append(out, vv.AsString())
			} else {
				out = append(out, "<nil>")
			}
		}
		return out
	}
	a := run(defA, use("a1.php", "make()"), use("a2.php", "viaStatic()"), use("a3.php", "viaProp()"))
	b := run(defB, use("b1.php", "make()"), use("b2.php", "viaStatic()"), use("b3.php", "viaProp()"))
	t.Logf("A: %v  B: %v", a, b)
	for i, what := range []string{"new Widget()", "Widget::sid()", "Widget::$tag"} {
		if a[i] != "A" {
			t.Fatalf("%s on the first temporary VM = %s, want A", what, a[i])
		}
		if b[i] != "B" {
			t.Errorf("%s on the second temporary VM = %s, want B (its own class); the node still holds the first VM's class", what, b[i])
		}
	}
}
