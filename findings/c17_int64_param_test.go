package runtime

import (
	"reflect"
	"testing"

	"github.com/php-any/origami/data"
)

// Witness for the failed obligation (*ReflectFunction).convertToGoValue:ensures:assignable (C17):
// for a Go parameter of kind int64 the converter returned reflect.ValueOf(int) — a value of
// type int — which reflect.Call rejects with a panic ("using int as type int64").
func TestVerifInt64ParameterBridge(t *testing.T) {
	rf := NewReflectFunction("twice", func(x int64) int64 { return 2 * x })
	v, err := rf.convertToGoValue(data.NewIntValue(21), reflect.TypeOf(int64(0)))
	if err != nil {
		t.Fatalf("conversion failed: %v", err)
	}
	if !v.Type().AssignableTo(reflect.TypeOf(int64(0))) {
		t.Fatalf("converted value has type %v, not assignable to the int64 parameter: reflect.Call will panic", v.Type())
	}
	if got := v.Int(); got != 21 {
		t.Fatalf("value changed: %d", got)
	}
}
