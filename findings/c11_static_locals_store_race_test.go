package node

import (
	"sync"
	"testing"
)

// Two requests calling the same function for the first time at once must agree on its static-local store.
func TestVerifStaticLocalsStoreIsCreatedOnce(t *testing.T) {
	for round := 0; round < 2000; round++ {
		f := &FunctionStatement{}
		var wg sync.WaitGroup
		got := make([]interface{}, 8)
		start := make(chan struct{})
		for i := range got {
			wg.Add(1)
			go func(i int) {
				defer wg.Done()
				<-start
				got[i] = f.funcStaticLocals()
			}(i)
		}
		close(start)
		wg.Wait()
		for i := range got {
			if got[i] != got[0] {
				t.Fatalf("round %d: concurrent first calls got different static-local stores: updates made through one are lost", round)
			}
		}
	}
}
