package runtime

import (
	"os"
	"path/filepath"
	"testing"

	"github.com/php-any/origami/parser"
)

// Witness for the failed frame obligation (*runtime.TempVM).LoadPkg:frame:call vm.Base.LoadPkg#1 (C12):
// a class autoloaded through TempVM.LoadPkg is registered in the base VM.
func TestVerifTempVMLoadPkgLeak(t *testing.T) {
	dir := t.TempDir()
	if err := os.WriteFile(filepath.Join(dir, "Widget.php"), []byte("<?php\nnamespace App;\nclass Widget { }\n"), 0o644); err != nil {
		t.Fatal(err)
	}
	p := parser.NewParser()
	base := NewVM(p).(*VM)
	base.AddNamespace("App", dir)
	t1 := NewTempVM(base).(*TempVM)
	t1.PrepareParse(p)
	t2 := NewTempVM(base).(*TempVM)
	t2.PrepareParse(p)
	v, acl := t1.LoadPkg("App\\Widget")
	if acl != nil || v == nil {
		t.Fatalf("autoload through the temporary VM failed: %v %v", v, acl)
	}
	if _, ok := base.GetClass("App\\Widget"); ok {
		t.Errorf("base VM now resolves App\\Widget: leaked")
	}
	if _, ok := t2.GetClass("App\\Widget"); ok {
		t.Errorf("another temporary VM now resolves App\\Widget")
	}
	if _, ok := t1.GetClass("App\\Widget"); !ok {
		t.Errorf("the loading temporary VM does not resolve App\\Widget")
	}
}
