<?php
$x = [1, 2 => ];
echo "unreachable\n";
