<?php
class A { abstract function zeta(); abstract function alpha(); abstract function mid(); }
$a = new A();
