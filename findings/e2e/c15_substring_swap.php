<?php
$s = "hello";
echo $s->substring(10, 2), "|", $s->substring(5, 1), "|", $s->substring(3, -1), "\n"; // llo|ello|hel
