<?php
// comment
$a = 1;
// another
throw new Exception("x");
