<?php
class E1 extends Exception {} class E2 extends E1 {}
$a = new E1("1"); $b = new E2("2"); $c = new E1("3");
echo $a->getMessage(), $b->getMessage(), $c->getMessage(), "\n";
$x = new Exception("x"); $y = new Exception("y");
echo $x->getMessage(), $y->getMessage(), "\n";
class P { public $m; function __construct($m) { $this->m = $m; } function get() { return $this->m; } }
class Q extends P {}
$p = new Q("p"); $q = new Q("q");
echo $p->get(), $q->get(), "\n";
$list = [new E1("1"), new E2("2")];
echo $list[0]->getMessage(), $list[1]->getMessage(), "\n";
foreach ([new E1("1"), new E2("2")] as $ex) { echo $ex->getMessage(); } echo "\n";
foreach ([new P("1"), new P("2")] as $o) { echo $o->get(); } echo "\n";
