<?php
for ($i = 0; $i < 3; $i++) {
  switch ($i) {
    case 1:
      echo "one ";
      continue;
      echo "AFTER-CONTINUE ";
    case 2:
      echo "two ";
      break;
    default:
      echo "dflt ";
  }
  echo "end$i ";
}
echo "\n";
function s($x) { static $n = 0; $n += 2; return $n; }
