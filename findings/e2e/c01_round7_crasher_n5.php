<?php
$o = {"a": 1, "b": };
echo 1;
