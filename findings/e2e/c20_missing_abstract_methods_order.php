<?php
abstract class P { abstract function zeta(); abstract function alpha(); abstract function mid(); abstract function beta(); }
class C extends P { }
$c = new C();
