<?php
function f() {}
try { $r = [1] + f(); echo "nopanic "; } catch (\Throwable $e) { echo "caught "; } finally { echo "finally"; }
echo "\n";
