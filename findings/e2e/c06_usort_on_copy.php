<?php
function keys($a) { $s = ""; foreach ($a as $k => $v) { $s = $s . $k . "=" . $v . " "; } return $s; }
$a = [3, 9, 1, 2];
unset($a[1]);
$b = $a;
echo keys($a), "\n";
usort($b, function ($p, $q) { return $p - $q; });
echo keys($a), "| ", keys($b), "\n";
