<?php echo ;
