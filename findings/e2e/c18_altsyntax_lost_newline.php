<?php
$a = 1;
if ($a)
:
  echo "x";
endif;
echo __LINE__, "\n";
throw new Exception("boom");
