<?php
$v = match() { 1 => 2 };
