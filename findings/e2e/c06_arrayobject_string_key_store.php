<?php
$o = new ArrayObject(["a" => 1, "b" => 2]);
$c = $o->getArrayCopy();
$o["a"] = 9;
echo json_encode($c), "\n";
$p = clone $o;
$p["b"] = 8;
echo $o["b"], " ", $p["b"], "\n";
$src = ["a" => 1, "b" => 2];
$q = new ArrayObject($src);
$q["a"] = 5;
echo json_encode($src), "\n";
