<?php
$a = ['x' => 1, 'y' => 2, 'z' => 3, 'w' => 4, 'v' => 5];
echo json_encode(array_values($a)), json_encode(array_slice($a, 1, 3)), json_encode(array_filter($a, fn($v) => $v > 1)), json_encode(array_merge($a, ['q' => 9])), json_encode(array_keys($a)), "\n";
$o = json_decode('{"b":1,"a":2,"c":3,"d":4}');
echo json_encode($o), "\n";
foreach ($o as $k => $v) echo $k; echo "\n";
