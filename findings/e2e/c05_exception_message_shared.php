<?php
$a = new Exception("a"); $b = new RuntimeException("b"); $c = new InvalidArgumentException("c");
echo $a->getMessage(), $b->getMessage(), $c->getMessage(), "\n";
try { throw $a; } catch (Exception $e) { echo "caught ", $e->getMessage(), "\n"; }
try { throw $b; } catch (Exception $e) { echo "caught ", $e->getMessage(), "\n"; }
function f() { throw new LogicException("inner"); }
try { try { f(); } catch (LogicException $e) { throw new RuntimeException("outer:" . $e->getMessage()); } } catch (Exception $e2) { echo $e2->getMessage(), "\n"; }
throw $a;
