<?php
switch () { case 1: echo 1; }
