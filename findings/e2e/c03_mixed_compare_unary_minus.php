<?php
$i = 2; $f = 2.5; $n = -3;
echo json_encode([$i < $f, $i <= $f, $f > $i, $f >= $i, $i > $f, $i >= $f, $i == $f, 2 == 2.0, $i <=> $f, $f <=> $i, 3 > $f, 3 >= 2.5]), "\n";
echo json_encode([-$n, -$n === 3, is_int(-$n), -$n <=> 1, 7 % -$n, - $n + 1]), "\n";
var_dump(-$n);
