<?php
function d($x, $y = 5, $z = "k") { return $x . "," . $y . "," . $z; }
$args = [1];
echo d(...$args), "\n";
echo d(...[1, 2]), "\n";
echo d(...[1, 2, 3]), "\n";
echo d(0, ...[9]), "\n";
function need($a, $b) { return $a + $b; }
try { echo need(...[1]), "\n"; } catch (\Throwable $e) { echo "error\n"; }
