<?php
function f() {}
$r = f() || 1;
$s = 1 && f();
echo ($r ? "T" : "F"), ($s ? "T" : "F"), "\n";
