<?php
$i = 0;
while ($i < 3) {
    $i++;
    if ($i == 2) { continue; }
    echo "i=", $i, " ";
}
echo "\n";
