<?php
$a = [1, 2, 3, 4, 5];
echo json_encode($a->slice(2)), " ", json_encode($a->slice(1, 3)), " ", json_encode($a->slice(-2)), "\n";
$b = [1, 2, 3, 4, 5];
echo json_encode($b->splice(2)), " ", json_encode($b), "\n";
$c = [1, 2, 3, 4, 5];
echo json_encode($c->splice(1, 1, "x", "y")), " ", json_encode($c), "\n";
echo json_encode([1, [2, [3, [4]]]]->flat()), " ", json_encode([1, [2, [3, [4]]]]->flat(2)), "\n";
echo json_encode([1]->concat([2], [3, 4])), "\n";
