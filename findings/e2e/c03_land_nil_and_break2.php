<?php
function f() {}
$r = f() && 1;
var_dump($r);
for ($i = 0; $i < 3; $i++) { for ($j = 0; $j < 3; $j++) { if ($j == 1) { break 2; } echo "$i$j "; } }
echo "\n";
