<?php
class P { public $a = 1; public $b = 2; public $c = 3; public $d = 4; public $e = 5; public $f = 6; }
$o = new P();
foreach ($o as $k => $v) { echo $k; }
echo "\n";
