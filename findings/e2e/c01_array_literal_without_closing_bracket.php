<?php
$x = [1, 2;
echo "ran\n";
