<?php
echo <div>a < 5</div>;
