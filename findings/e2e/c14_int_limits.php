<?php
echo json_encode(-0.0), "|", json_encode(json_decode("-0.0")), "|", json_encode(json_decode("12345678901234567890", true)), "|", json_encode(json_decode("9007199254740993", true)), "|", json_encode(json_decode('{"a":{"b":1}}', true)), "\n";
var_dump(unserialize(serialize(PHP_INT_MIN)) === PHP_INT_MIN, unserialize(serialize(-0.0)), unserialize('i:-9223372036854775808;'));
var_dump(json_decode("5"), json_decode('"x"'), json_decode('true'), json_decode('[1,2]'));
