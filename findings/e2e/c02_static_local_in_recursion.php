<?php
class K { public function m($n) { static $c = 0; $c++; if ($n > 0) { $this->m($n - 1); } return $c; } public static function s() { static $q = []; $q[] = count($q); return count($q); } }
$k = new K(); echo $k->m(3), " ", $k->m(0), "\n";
echo K::s(), K::s(), K::s(), "\n";
function g() { static $n = 10; $f = function() use (&$n) { $n++; }; $f(); return $n; }
echo g(), g(), "\n";
function h($x) { static $seen = []; $seen[$x] = true; if ($x > 0) h($x - 1); return count($seen); }
echo h(3), "\n";
function gen() { static $i = 0; $i++; yield $i; $i++; yield $i; }
foreach (gen() as $v) echo $v; foreach (gen() as $v) echo $v; echo "\n";
