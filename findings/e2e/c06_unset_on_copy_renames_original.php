<?php
function keys($a) { $s = ""; foreach ($a as $k => $v) { $s = $s . $k . "=" . $v . " "; } return $s; }
$a = [3, 9, 1, 2];
$b = $a;
unset($b[1]);
array_shift($a);
echo keys($a), "| ", keys($b), "\n";
$c = [3, 9, 1, 2];
$d = $c;
unset($d[1]);
$e = $c->slice(1);
echo keys($e), "\n";
array_unshift($c, 7);
echo keys($c), "\n";
$f = [3, 9, 1, 2];
$g = $f;
unset($g[0]);
$f->shift();
echo keys($f), "\n";
$h = [3, 9, 1, 2];
$i = $h;
unset($i[0]);
$h->reverse();
echo keys($h), "\n";
