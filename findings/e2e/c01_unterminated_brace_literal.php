<?php
$a = {"a" => 1