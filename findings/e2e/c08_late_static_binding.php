<?php
class P1 { static function n() { return static::class; } function inst() { return static::class; } static function viaSelf() { return self::n(); } static function viaStatic() { return static::n(); } function instViaSelf() { return self::n(); } }
class C1 extends P1 {} class D1 extends C1 { static function n() { return "D1n:" . static::class; } }
echo P1::n(), " ", C1::n(), " ", (new C1)->inst(), " ", (new P1)->inst(), " ", C1::viaSelf(), " ", C1::viaStatic(), " ", D1::viaStatic(), " ", D1::viaSelf(), " ", (new C1)->instViaSelf(), "\n";
