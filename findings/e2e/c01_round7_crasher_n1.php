<?php
$x = new Foo<