<?php
if ( {
