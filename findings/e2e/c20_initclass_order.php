<?php
class P { public $a; public $b; public $c; public $d; }
function t($x) { echo $x; return $x; }
$p = P { a: t("1"), b: t("2"), c: t("3"), d: t("4") };
echo "\n";
