<?php
function keys($a) { $s = ""; foreach ($a as $k => $v) { $s = $s . $k . "=" . $v . " "; } return $s; }
$a = []; $a[2] = "x"; $a[1] = "y"; $a[0] = "z";
echo count($a), " ", keys($a), "\n";
$b = []; $b[5] = "p"; $b[0] = "q";
echo count($b), " ", keys($b), "\n";
$d = ["a" => 1]; $d[0] = "z"; $d[1] = "y";
echo count($d), " ", keys($d), "\n";
$e = [10, 20, 30]; unset($e[0]); $e[0] = "back"; 
echo count($e), " ", keys($e), "\n";
