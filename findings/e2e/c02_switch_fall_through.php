<?php
function t($k) {
  $o = "";
  switch ($k) {
    case 1:
    case 2:
      $o .= "a";
      break;
    case 3:
      $o .= "b";
    case 4:
      $o .= "c";
      break;
    case 5:
      $o .= "d";
    default:
      $o .= "e";
  }
  return $o;
}
echo t(1), ",", t(2), ",", t(3), ",", t(4), ",", t(5), ",", t(9), "\n";
