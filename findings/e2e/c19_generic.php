<?php
class Box<T> {
    public T $v;
}
$a = new Box<int>();
$a->v = 1;
$b = new Box<string>();
try { $b->v = 5; echo "Box<string> accepted int\n"; } catch (\Throwable $e) { echo "Box<string> rejected int\n"; }
try { $b->v = "s"; echo "Box<string> accepted string\n"; } catch (\Throwable $e) { echo "Box<string> rejected string\n"; }
try { $a->v = "s"; echo "Box<int> accepted string\n"; } catch (\Throwable $e) { echo "Box<int> rejected string\n"; }
