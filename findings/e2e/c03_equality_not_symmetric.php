<?php
var_dump(1 == true); var_dump(true == 1); var_dump(1 == "1"); var_dump("1" == 1); var_dump(0 == false); var_dump(false == 0); var_dump(1.0 == 1); var_dump(1 == 1.0); var_dump("1.0" == 1); var_dump(null == false); var_dump(false == null);
