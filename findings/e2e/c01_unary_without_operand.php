<?php
$a = -;
echo "ran\n";
