<?php
var_dump(2**63);
var_dump(2**62);
var_dump((-2)**63);
