<?php
class MyEx extends Exception {}
try {
  try { throw new MyEx("inner"); }
  catch (Exception $e) { echo get_class($e), "|"; throw $e; }
} catch (MyEx $m) { echo "caught MyEx ", $m->getMessage(), "\n"; }
  catch (Exception $x) { echo "caught Exception ", get_class($x), " ", $x->getMessage(), "\n"; }
$t = new MyEx("same");
try { throw $t; } catch (MyEx $c) { var_dump($c === $t); echo get_class($c), "\n"; }
class P1 { static function n() { return static::class . "/" . self::class; } static function who() { return self::helper(); } static function helper() { return static::class; } }
class C1 extends P1 {}
echo C1::n(), " ", C1::who(), "\n";
interface I1 { const K = 7; } interface I2 extends I1 {} class Impl implements I2 {}
echo I1::K, "\n";
echo Impl::K, "\n";
echo I2::K, "\n";
