<?php
$out = "";
$i = 0;
while ($i < 3) { $i++; foreach ([1, 2, 3] as $v) { if ($v == 2) { continue 2; } $out .= "$i$v "; } $out .= "end$i "; }
echo $out, "\n";
$out = "";
for ($i = 0; $i < 3; $i++) { switch ($i) { case 1: break 2; default: $out .= "d$i "; } $out .= "a$i "; }
echo $out, "\n";
$out = "";
for ($i = 0; $i < 3; $i++) { switch ($i) { case 1: continue 2; default: $out .= "d$i "; } $out .= "a$i "; }
echo $out, "\n";
$out = "";
$n = 0;
do { $n++; for ($j = 0; $j < 3; $j++) { foreach (["a" => 1, "b" => 2] as $k => $v) { if ($n == 1 && $k == "b") { continue 3; } if ($n == 2) { break 3; } $out .= "$n$j$k "; } } } while ($n < 5);
echo $out, "n=$n\n";
$out = "";
foreach ([1, 2] as $a) { foreach ([1, 2] as $b) { if ($b == 2) { break 1; } $out .= "$a$b "; } }
echo $out, "\n";
function gen() { for ($i = 0; $i < 3; $i++) { foreach ([1, 2] as $v) { if ($v == 2) continue 2; yield "$i$v"; } } }
foreach (gen() as $x) echo $x, " "; echo "\n";
