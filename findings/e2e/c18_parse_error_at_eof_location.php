<?php

function f() {
  return 1;
