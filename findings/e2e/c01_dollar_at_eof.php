<?php
echo 1;
$