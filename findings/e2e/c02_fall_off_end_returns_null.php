<?php
function f() { $a = 5; }
var_dump(f());
function g() { if (false) { return 1; } }
var_dump(g());
$x = 3;
try { echo match($x) { 1 => "a", 2 => "b" }; echo "no error\n"; } catch (\Throwable $e) { echo "caught ", get_class($e), "\n"; }
