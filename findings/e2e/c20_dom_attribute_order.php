<?php
$d = new DOMDocument();
$d->loadHTML('<div id="a" class="b" data-x="1" title="t"><p z="1" y="2" x="3">hi</p></div>');
$n = $d->getElementsByTagName("div");
echo $d->saveXML($n->item(0)), "\n";
