<?php
$x = -1;
if ($x) { echo "if:T "; } else { echo "if:F "; }
echo ($x ? "ternary:T " : "ternary:F ");
$n = 0; while ($x) { $n++; if ($n > 2) { break; } } echo "while:", $n, " ";
echo (!$x ? "not:T" : "not:F"), "\n";
$f = -0.5;
if ($f) { echo "if:T "; } else { echo "if:F "; }
echo ($f ? "ternary:T" : "ternary:F"), "\n";
