<?php
function counter() { static $n = 0; $n += 2; return $n; }
echo counter(), counter(), counter(), "\n";
function counter2() { static $n = 0; $n++; return $n; }
echo counter2(), counter2(), counter2(), "\n";
function counter3() { static $n = 0; $n = $n + 2; return $n; }
echo counter3(), counter3(), counter3(), "\n";
function loop($k) { for (; $k < 3; $k++) {} return $k; }
$x = 0; loop($x); echo $x, "\n";
function inc($k) { $k++; return $k; }
$y = 5; inc($y); echo $y, "\n";
function inc2($k) { $k += 1; return $k; }
$y = 5; inc2($y); echo $y, "\n";
function dflt($a = [1,2]) { $a[] = 3; return count($a); }
echo dflt(), dflt(), dflt(), "\n";
function dflt2($s = "ab") { $s .= "c"; return $s; }
echo dflt2(), dflt2(), "\n";
function a() { static $s = ""; $s .= "x"; return $s; }
echo a(), a(), a(), "\n";
function b() { static $n = 1; $n *= 2; return $n; }
echo b(), b(), b(), "\n";
function c() { static $arr = []; $arr[] = count($arr); return count($arr); }
echo c(), c(), c(), "\n";
class K { function m() { static $n = 0; $n = $n + 1; return $n; } static function s() { static $q = 10; $q -= 1; return $q; } }
$k = new K; echo $k->m(), $k->m(), (new K)->m(), "\n";
echo K::s(), K::s(), "\n";
function d() { static $n = 0; $m = $n; $n = $m + 5; return $n; }
echo d(), d(), "\n";
function e() { static $a = 0, $b = 1; $t = $a + $b; $a = $b; $b = $t; return $a; }
echo e(), e(), e(), e(), e(), "\n";
