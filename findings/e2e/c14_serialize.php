<?php
var_dump(unserialize('a:2:{i:0;s:1:"a";i:1;s:1:"b";}'));
var_dump(unserialize(serialize(["x", "y\"z", "w"])));
var_dump(serialize(1.5));
var_dump(unserialize(serialize(1.5)));
var_dump(unserialize(serialize(-0.25)) === -0.25);
var_dump(unserialize('a:4611686018427387904:{'));
