<?php
class A { private $secret = 1; private function hid() { return "hidden"; } protected $prot = 2; }
class B extends A {
  function peek() { try { return $this->secret; } catch (\Throwable $e) { return "denied"; } }
  function poke($o) { try { $o->secret = 9; return "written"; } catch (\Throwable $e) { return "denied"; } }
  function call($o) { try { return $o->hid(); } catch (\Throwable $e) { return "denied"; } }
  function prot($o) { try { return $o->prot; } catch (\Throwable $e) { return "denied"; } }
}
$b = new B(); $a = new A();
echo $b->poke($a), " ", $b->call($a), " ", $b->prot($a), "\n";
try { echo $a->secret; } catch (\Throwable $e) { echo "outside-denied\n"; }
