<?php var_dump(null != null); var_dump(null == null);
