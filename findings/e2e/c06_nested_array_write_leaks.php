<?php
$a = [[1,2],[3,4]]; $b = $a; $b[0][0] = 9; echo json_encode($a), "\n";
$a = ['k'=>1, 0=>2]; $b = $a; $b['k'] = 9; echo json_encode($a), "\n";
$a = [1,2]; $b = $a; $b[0]++; echo json_encode($a), "\n";
$a = ["x","y"]; $b = $a; $b[0] .= "z"; echo json_encode($a), "\n";
$a = [1,2]; $c = [$a]; $c[0][0] = 9; echo json_encode($a), "\n";
$a = ['k'=>['n'=>1]]; $b = $a; $b['k']['n'] = 9; echo json_encode($a), "\n";
$a = [1,2,3]; $b = $a; $b[1] += 5; echo json_encode($a), "\n";
function f($p) { $p[0][0] = 7; return $p; } $a = [[1]]; f($a); echo json_encode($a), "\n";
$a = ['x'=>1]; $b = $a; $b['y'] = 2; echo json_encode($a), "\n";
$o = new stdClass; $o->arr = [1,2]; $b = $o->arr; $b[0] = 9; echo json_encode($o->arr), "\n";
$a = [1,2]; $b = $a; unset($b[0]); echo json_encode($a), "\n";
$a = [3,1,2]; $b = $a; sort($b); echo json_encode($a), "\n";
