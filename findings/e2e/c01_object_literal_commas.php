<?php
$o = {"a" => 1, "b" => 2};
echo "ok\n";
