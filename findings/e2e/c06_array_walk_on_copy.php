<?php
$a = [1, 2, 3];
$b = $a;
array_walk($b, function ($v) { return $v * 10; });
echo json_encode($a), " ", json_encode($b), "\n";
function f($x) { array_walk($x, function ($v) { return $v + 1; }); return $x; }
$c = [5, 6];
$d = f($c);
echo json_encode($c), " ", json_encode($d), "\n";
