<?php
$a = ["x" => 1, 5];
foreach ($a as $k => $v) { echo "$k=$v "; }
echo "\n";
