<?php
class MyEx extends Exception { public $tag = "T"; }
$o = new MyEx("boom");
try { throw $o; } catch (MyEx $e) { echo ($e === $o ? "same" : "different"), "\n"; echo $e->tag, "\n"; }
