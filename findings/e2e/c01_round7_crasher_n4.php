<?php
$a = array(1, , 2);
echo count($a);
