<?php
$a = array(1 => 2