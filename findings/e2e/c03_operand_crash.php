<?php
function f() {}
$r = [];
try { $b = 2 * [1]; } catch (\Throwable $e) { $r[] = "mul"; }
try { $b = 2 - [1]; } catch (\Throwable $e) { $r[] = "sub"; }
try { $b = 5 % 0.5; } catch (\Throwable $e) { $r[] = "rem"; }
try { $b = 7.5 % 0.25; } catch (\Throwable $e) { $r[] = "remf"; }
try { $b = 1 << [1]; } catch (\Throwable $e) { $r[] = "shl"; }
try { $b = 2 ** [1]; } catch (\Throwable $e) { $r[] = "pow"; }
try { $b = 2.5 / [1]; } catch (\Throwable $e) { $r[] = "quo"; }
try { $b = 2 * f(); } catch (\Throwable $e) { $r[] = "mulnil"; }
echo implode(",", $r), "\n";
