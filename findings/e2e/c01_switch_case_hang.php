<?php
$a = 1;
switch ($a) { case 1: ) }
