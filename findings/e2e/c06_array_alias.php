<?php
$x = [1, 2, 3];
$y = $x;
$y[0] = 9;
echo $x[0], " ", $y[0], "\n";
function f($a) { $a[1] = 7; return $a; }
$z = f($x);
echo $x[1], " ", $z[1], "\n";
$k = ["a" => 1, "b" => 2];
$m = $k;
$m["a"] = 5;
echo $k["a"], " ", $m["a"], "\n";
$r = [1, 2, 3];
$s = $r;
unset($s[1]);
$t = $r;
foreach ($t as $kk => $vv) { echo $kk, "=", $vv, " "; }
echo "\n";
$r2 = [1, 2, 3];
$s2 = $r2;
unset($s2[1]);
echo json_encode($r2), " ", json_encode($s2), "\n";
