#!/usr/bin/env origami
<?php

undefined_fn();
