<?php
$b = 2 * [1];
echo "after\n";
