<?php
$a = [1];
echo "x{$a->}";
