<?php
$x = [, 1;
echo "ran\n";
