package node_test

import (
	"net/http/httptest"
	"testing"

	"github.com/php-any/origami/data"
	"github.com/php-any/origami/node"
	"github.com/php-any/origami/parser"
	"github.com/php-any/origami/runtime"
	httpstd "github.com/php-any/origami/std/net/http"
)

// Witness for the open finding of C11: $_GET (and the other superglobals) are
// cached in package-level variables (node.getValue, …) shared by every request.
// Schedule of two in-flight requests A and B (each step is what Handler.ServeHTTP /
// the handler script do): A: reset, A: read $_GET, B: reset, B: read $_GET, A: read $_GET.
// A's second read returns B's query parameters.
func TestVerifSuperglobalsBelongToTheirRequest(t *testing.T) {
	vm := runtime.NewVM(parser.NewParser())
	mk := func(query string) data.Context {
		req := httptest.NewRequest("GET", "/?"+query, nil)
		v := node.NewVariable(nil, "r", 0, nil)
		ctx := vm.CreateContext([]data.Variable{v})
		ctx.SetVariableValue(v, data.NewProxyValue(httpstd.NewRequestClassFrom(req), ctx))
		return ctx
	}
	get := func(ctx data.Context) string {
		v, _ := node.NewGetVariable(nil).GetValue(ctx)
		p, _ := v.(*data.ObjectValue).GetProperty("who")
		if p == nil {
			return "<none>"
		}
		return p.AsString()
	}
	a, b := mk("who=alice"), mk("who=bob")
	node.ResetSuperglobals() // request A starts
	if got := get(a); got != "alice" {
		t.Fatalf("A's first read: %q", got)
	}
	node.ResetSuperglobals() // request B starts while A is still running
	if got := get(b); got != "bob" {
		t.Fatalf("B's read: %q", got)
	}
	if got := get(a); got != "alice" {
		t.Fatalf("request A read $_GET['who'] = %q: it sees request B's data", got)
	}
}
