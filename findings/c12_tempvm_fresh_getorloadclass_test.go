package runtime

import (
	"testing"

	"github.com/php-any/origami/parser"
)

// A temporary VM that has not parsed anything yet asks for a class nobody defined: the answer is an error
// control ("class not found"), not a nil-pointer panic on the missing parser.
func TestVerifTempVMGetOrLoadClassFreshVM(t *testing.T) {
	p := parser.NewParser()
	base := NewVM(p)
	tmp := NewTempVM(base)
	defer func() {
		if r := recover(); r != nil {
			t.Fatalf("panic: %v", r)
		}
	}()
	_, acl := tmp.GetOrLoadClass("NoSuchClassAnywhere")
	if acl == nil {
		t.Fatalf("expected an error control")
	}
}
