package http

import (
	httpsrc "net/http"
	"net/http/httptest"
	"testing"

	"github.com/php-any/origami/data"
	"github.com/php-any/origami/node"
	"github.com/php-any/origami/runtime"
	"github.com/php-any/origami/parser"
)

// countingWriter records every header commit that reaches the connection.
type countingWriter struct {
	*httptest.ResponseRecorder
	commits []int
}

func (c *countingWriter) WriteHeader(code int) {
	c.commits = append(c.commits, code)
	c.ResponseRecorder.WriteHeader(code)
}

// errFn is an onError closure that answers 500.
type errFn struct{}

func (errFn) GetName() string            { return "onError" }
func (errFn) GetParams() []data.GetValue { return nil }
func (errFn) GetVariables() []data.Variable {
	return []data.Variable{node.NewVariable(nil, "r", 0, nil), node.NewVariable(nil, "w", 1, nil), node.NewVariable(nil, "e", 2, nil)}
}
func (errFn) Call(ctx data.Context) (data.GetValue, data.Control) {
	w, _ := ctx.GetIndexValue(1)
	if p, ok := w.(*data.ProxyValue); ok {
		if rc, ok := p.Class.(*ResponseWriterClass); ok {
			rc.w.SetStatus(500)
			rc.w.Write([]byte("error"))
		}
	}
	return nil, nil
}

// A handler that commits (status 201) and then fails: the connection must see one header commit, not two.
func TestFindingC13OnErrorAfterCommitCommitsOnce(t *testing.T) {
	vm := runtime.NewVM(parser.NewParser())
	server := &ServerClass{}
	server.errorHandler = &errorHandlerSlot{fn: errFn{}, ctx: vm.CreateContext(nil)}
	inner := httpsrc.HandlerFunc(func(w httpsrc.ResponseWriter, r *httpsrc.Request) {
		rw, _ := beginResponse(w, r)
		defer rw.commitPending()
		rw.SetStatus(201)
		panic("boom")
	})
	cw := &countingWriter{ResponseRecorder: httptest.NewRecorder()}
	withErrorHandler(server, inner).ServeHTTP(cw, httptest.NewRequest("GET", "/x", nil))
	if len(cw.commits) != 1 {
		t.Fatalf("header commits on the connection: %v, want exactly one", cw.commits)
	}
}
