package protowire

import (
	"testing"

	pw "google.golang.org/protobuf/encoding/protowire"
)

// Witness for the failed obligation parseFields:ensures:all-bytes (C14):
// a wire-type-4 tag outside any group followed by more bytes was accepted with
// err == nil although the trailing bytes were never parsed.
func TestVerifStrayEndGroup(t *testing.T) {
	in := pw.AppendTag(nil, 1, pw.EndGroupType)
	in = append(in, 0x08, 0x01) // field 1 varint 1, never looked at
	fields, err := ParseRawFields(in, nil)
	if err == nil {
		t.Fatalf("accepted %x with %d fields and no error: %d input bytes unaccounted for", in, len(fields), len(in)-1)
	}
}
