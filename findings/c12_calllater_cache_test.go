package runtime

import (
	"os"
	"path/filepath"
	"testing"

	"github.com/php-any/origami/data"
	"github.com/php-any/origami/parser"
)

// Shared code (parsed once on the base VM) calls a function that is defined per temporary VM.
func TestVerifCallLaterCachesAcrossTempVMs(t *testing.T) {
	dir := t.TempDir()
	write := func(name, src string) string {
		p := filepath.Join(dir, name)
		if err := os.WriteFile(p, []byte(src), 0o644); err != nil {
			t.Fatal(err)
		}
		return p
	}
	shared := write("shared.php", "<?php\nfunction caller() { return answer(); }\n")
	defA := write("a.php", "<?php\nfunction answer() { return 1; }\n")
	defB := write("b.php", "<?php\nfunction answer() { return 2; }\n")
	useA := write("usea.php", "<?php\nreturn caller();\n")
	useB := write("useb.php", "<?php\nreturn caller();\n")

	p := parser.NewParser()
	base := NewVM(p).(*VM)
	if _, acl := base.LoadAndRun(shared); acl != nil {
		t.Fatalf("shared: %v", acl)
	}
	run := func(def, use string) string {
		tv := NewTempVM(base).(*TempVM)
		if _, acl := tv.LoadAndRun(def); acl != nil {
			t.Fatalf("def: %v", acl.AsString())
		}
		v, acl := tv.LoadAndRun(use)
		if acl != nil {
			t.Fatalf("use: %v", acl.AsString())
		}
		if vv, ok := v.(data.Value); ok {
			return vv.AsString()
		}
		return "<nil>"
	}
	if got := run(defA, useA); got != "1" {
		t.Fatalf("first temporary VM: caller() = %s, want 1", got)
	}
	if got := run(defB, useB); got != "2" {
		t.Errorf("second temporary VM: caller() = %s, want 2 (its own answer()); the call node still holds the first VM's function", got)
	}
}
