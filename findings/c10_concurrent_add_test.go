package runtime

import (
	"fmt"
	"sync"
	"testing"

	"github.com/php-any/origami/data"
	"github.com/php-any/origami/parser"
)

type verifFn struct{ name string }

func (f *verifFn) GetName() string                                   { return f.name }
func (f *verifFn) GetParams() []data.GetValue                        { return nil }
func (f *verifFn) GetVariables() []data.Variable                     { return nil }
func (f *verifFn) Call(ctx data.Context) (data.GetValue, data.Control) { return nil, nil }

// Witness for the failed obligations AddFunc:guard-write:VM.funcMap / GetFunc:guard-read:VM.funcMap (C10):
// map writes under RLock and lock-free reads. On the pinned tree the Go runtime aborts with
// "fatal error: concurrent map writes" (or the race detector reports the race).
func TestVerifConcurrentAddFunc(t *testing.T) {
	vm := NewVM(parser.NewParser()).(*VM)
	var wg sync.WaitGroup
	for g := 0; g < 16; g++ {
		wg.Add(1)
		go func(g int) {
			defer wg.Done()
			for i := 0; i < 5000; i++ {
				n := fmt.Sprintf("f_%d_%d", g, i)
				if acl := vm.AddFunc(&verifFn{n}); acl != nil {
					t.Errorf("AddFunc(%s) rejected", n)
					return
				}
				if _, ok := vm.GetFunc(n); !ok {
					t.Errorf("registered function %s not visible", n)
					return
				}
			}
		}(g)
	}
	wg.Wait()
}
