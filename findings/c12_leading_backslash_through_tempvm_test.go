package runtime_test

import (
	"os"
	"path/filepath"
	"testing"

	"github.com/php-any/origami/data"
	"github.com/php-any/origami/parser"
	"github.com/php-any/origami/runtime"
	"github.com/php-any/origami/std"
	"github.com/php-any/origami/std/php"
)

func findingRun(t *testing.T, vm data.VM, dir, name, src string) string {
	t.Helper()
	f := filepath.Join(dir, name)
	if err := os.WriteFile(f, []byte(src), 0o644); err != nil {
		t.Fatal(err)
	}
	v, acl := vm.LoadAndRun(f)
	if acl != nil {
		return "ACL:" + acl.AsString()
	}
	if s, ok := v.(data.AsString); ok {
		return s.AsString()
	}
	return "<no value>"
}

// A class of the base VM is resolvable through a temporary VM under every spelling the base VM itself accepts:
// a fully qualified name with a leading backslash included (`$n = '\App\BaseC'; new $n;`).
func TestFindingC12LeadingBackslashThroughTempVM(t *testing.T) {
	dir := t.TempDir()
	b := runtime.NewVM(parser.NewParser())
	std.Load(b)
	php.Load(b)
	b.SetThrowControl(func(acl data.Control) { t.Logf("uncaught: %s", acl.AsString()) })
	base := b.(*runtime.VM)
	if got := findingRun(t, base, dir, "boot.php", "<?php\nnamespace App;\nclass BaseC { public $v = 7; }\nreturn 'boot';\n"); got != "boot" {
		t.Fatalf("boot: %s", got)
	}
	if c, acl := base.GetOrLoadClass("\\App\\BaseC"); acl != nil || c == nil {
		t.Fatalf("base VM does not resolve the leading-backslash name itself: %v", acl)
	}
	tmp := runtime.NewTempVM(base)
	if c, acl := tmp.GetOrLoadClass("\\App\\BaseC"); acl != nil || c == nil {
		t.Errorf("temporary VM: GetOrLoadClass(\\App\\BaseC) fails although the base VM resolves it")
	}
	if got := findingRun(t, runtime.NewTempVM(base), dir, "req.php", "<?php\n$n = '\\\\App\\\\BaseC';\n$o = new $n;\nreturn 'v=' . $o->v;\n"); got != "v=7" {
		t.Errorf("request script with a dynamic leading-backslash name: %s, want v=7", got)
	}
	if got := findingRun(t, base, dir, "req2.php", "<?php\n$n = '\\\\App\\\\BaseC';\n$o = new $n;\nreturn 'v=' . $o->v;\n"); got != "v=7" {
		t.Errorf("the same script on the base VM: %s, want v=7", got)
	}
}
