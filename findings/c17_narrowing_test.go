package utils

import (
	"testing"

	"github.com/php-any/origami/data"
)

// Witness for C17: the generic argument converter narrowed integers silently
// (300 -> int8 44, -1 -> uint8 255) and reported no error.
func TestVerifGenericConverterReportsUnrepresentable(t *testing.T) {
	if v, err := convertFromIntValue[int8](data.NewIntValue(300).(*data.IntValue)); err == nil {
		t.Errorf("300 converted to int8 %d without an error", v)
	}
	if v, err := convertFromIntValue[uint8](data.NewIntValue(-1).(*data.IntValue)); err == nil {
		t.Errorf("-1 converted to uint8 %d without an error", v)
	}
	if v, err := convertFromIntValue[int8](data.NewIntValue(-128).(*data.IntValue)); err != nil || v != -128 {
		t.Errorf("-128 is representable as int8: got %d, %v", v, err)
	}
	if v, err := convertFromIntValue[uint16](data.NewIntValue(65535).(*data.IntValue)); err != nil || v != 65535 {
		t.Errorf("65535 is representable as uint16: got %d, %v", v, err)
	}
}
