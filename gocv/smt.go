package main

import (
	"fmt"
	"go/types"
	"math/big"
	"sort"
	"strings"
)

func q(s string) string {
	s = strings.NewReplacer("|", "!", "\\", "!").Replace(s)
	return "|" + s + "|"
}

func S(op string, args ...string) string {
	return "(" + op + " " + strings.Join(args, " ") + ")"
}

func And(xs ...string) string {
	var ys []string
	for _, x := range xs {
		if x == "true" || x == "" {
			continue
		}
		if x == "false" {
			return "false"
		}
		ys = append(ys, x)
	}
	switch len(ys) {
	case 0:
		return "true"
	case 1:
		return ys[0]
	}
	return S("and", ys...)
}

func Or(xs ...string) string {
	var ys []string
	for _, x := range xs {
		if x == "false" || x == "" {
			continue
		}
		if x == "true" {
			return "true"
		}
		ys = append(ys, x)
	}
	switch len(ys) {
	case 0:
		return "false"
	case 1:
		return ys[0]
	}
	return S("or", ys...)
}

func Not(x string) string {
	if x == "true" {
		return "false"
	}
	if x == "false" {
		return "true"
	}
	return S("not", x)
}

func Imp(a, b string) string {
	if a == "true" {
		return b
	}
	if a == "false" || b == "true" {
		return "true"
	}
	return S("=>", a, b)
}

func IntLit(n *big.Int) string {
	if n.Sign() < 0 {
		return "(- " + new(big.Int).Neg(n).String() + ")"
	}
	return n.String()
}

func IntLit64(n int64) string { return IntLit(big.NewInt(n)) }

// ---- sorts ---------------------------------------------------------------

type sortReg struct {
	structDecl  []string          // datatype declarations in dependency order
	structSort  map[string]string // type key -> sort symbol
	structInfo  map[string]*structInfo
	tags        map[string]int // type key -> tag
	tagTypes    []types.Type
	ifaces      map[string]*types.Interface // iface key -> type (for impl facts)
	ifaceNamed  map[string]types.Type
	boxSorts    map[string]bool
	strConsts   map[string]string
	strOrder    []string
	uninterp    map[string]string // declared function symbol -> declaration
	uninterpOrd []string
	extraAxioms []string
}

type structInfo struct {
	sort   string
	ctor   string
	sels   []string
	fields []*types.Var
	st     *types.Struct
}

func newSortReg() *sortReg {
	return &sortReg{structSort: map[string]string{}, structInfo: map[string]*structInfo{}, tags: map[string]int{},
		ifaces: map[string]*types.Interface{}, ifaceNamed: map[string]types.Type{}, boxSorts: map[string]bool{}, strConsts: map[string]string{}, uninterp: map[string]string{}}
}

func typeKey(t types.Type) string {
	return types.TypeString(t, func(p *types.Package) string { return p.Path() })
}

func shortTypeKey(t types.Type) string {
	return types.TypeString(t, func(p *types.Package) string { return p.Name() })
}

// sortOf maps a Go type to an SMT sort.
func (r *sortReg) sortOf(t types.Type) string {
	if m, ok := t.(*MathMap); ok {
		return "(Array " + r.sortOf(m.K) + " " + r.sortOf(m.V) + ")"
	}
	switch u := t.Underlying().(type) {
	case *types.Basic:
		switch {
		case u.Info()&types.IsBoolean != 0:
			return "Bool"
		case u.Info()&types.IsFloat != 0:
			return "Real"
		}
		return "Int"
	case *types.Slice:
		return "Slice"
	case *types.Interface:
		return "Iface"
	case *types.Struct:
		return r.structSortOf(t, u)
	case *types.Array:
		return "(Array Int " + r.sortOf(u.Elem()) + ")"
	case *types.Tuple:
		return "Int"
	}
	return "Int"
}

func (r *sortReg) structSortOf(t types.Type, st *types.Struct) string {
	k := typeKey(t)
	if s, ok := r.structSort[k]; ok {
		return s
	}
	name := shortTypeKey(t)
	if _, ok := t.(*types.Named); !ok {
		name = fmt.Sprintf("anon%d", len(r.structSort))
	}
	sortSym := q("S!" + name)
	// guard against name clashes between packages with the same short name
	for _, v := range r.structSort {
		if v == sortSym {
			sortSym = q(fmt.Sprintf("S!%s!%d", name, len(r.structSort)))
		}
	}
	r.structSort[k] = sortSym
	info := &structInfo{sort: sortSym, ctor: q("mk!" + strings.Trim(sortSym, "|")), st: st}
	var fl []string
	for i := 0; i < st.NumFields(); i++ {
		f := st.Field(i)
		fname := f.Name()
		if fname == "_" {
			fname = fmt.Sprintf("_%d", i) // blank fields may repeat
		}
		sel := q(strings.Trim(sortSym, "|") + "!" + fname)
		info.sels = append(info.sels, sel)
		info.fields = append(info.fields, f)
		fl = append(fl, "("+sel+" "+r.sortOf(f.Type())+")")
	}
	r.structInfo[k] = info
	if len(fl) == 0 {
		r.structDecl = append(r.structDecl, fmt.Sprintf("(declare-datatypes ((%s 0)) (((%s))))", sortSym, info.ctor))
	} else {
		r.structDecl = append(r.structDecl, fmt.Sprintf("(declare-datatypes ((%s 0)) (((%s %s))))", sortSym, info.ctor, strings.Join(fl, " ")))
	}
	return sortSym
}

func (r *sortReg) structInfoOf(t types.Type) *structInfo {
	st, ok := t.Underlying().(*types.Struct)
	if !ok {
		return nil
	}
	r.structSortOf(t, st)
	return r.structInfo[typeKey(t)]
}

// zero value of a type
func (r *sortReg) zero(t types.Type) string {
	switch u := t.Underlying().(type) {
	case *types.Basic:
		switch {
		case u.Info()&types.IsBoolean != 0:
			return "false"
		case u.Info()&types.IsFloat != 0:
			return "0.0"
		case u.Info()&types.IsString != 0:
			return r.strConst("")
		}
		return "0"
	case *types.Slice:
		return "(mk-slice 0 0 0 0)"
	case *types.Interface:
		return "(mk-iface 0 0)"
	case *types.Struct:
		info := r.structInfoOf(t)
		if len(info.fields) == 0 {
			return info.ctor
		}
		var zs []string
		for _, f := range info.fields {
			zs = append(zs, r.zero(f.Type()))
		}
		return S(info.ctor, zs...)
	case *types.Array:
		return "((as const " + r.sortOf(t) + ") " + r.zero(u.Elem()) + ")"
	}
	return "0"
}

func (r *sortReg) strConst(s string) string {
	if s == "" {
		return "0"
	}
	if c, ok := r.strConsts[s]; ok {
		return c
	}
	c := q(fmt.Sprintf("str!%d", len(r.strOrder)+1))
	r.strConsts[s] = c
	r.strOrder = append(r.strOrder, s)
	return c
}

func (r *sortReg) tagOf(t types.Type) int {
	k := typeKey(t)
	if n, ok := r.tags[k]; ok {
		return n
	}
	n := len(r.tagTypes) + 1
	r.tags[k] = n
	r.tagTypes = append(r.tagTypes, t)
	return n
}

func (r *sortReg) implSym(t types.Type) string {
	k := typeKey(t)
	if _, ok := r.ifaces[k]; !ok {
		r.ifaces[k] = t.Underlying().(*types.Interface)
		r.ifaceNamed[k] = t
	}
	return q("impl!" + shortTypeKey(t))
}

func (r *sortReg) declareFun(sym, decl string) {
	if _, ok := r.uninterp[sym]; !ok {
		r.uninterp[sym] = decl
		r.uninterpOrd = append(r.uninterpOrd, sym)
	}
}

// Interface payloads. Reference-like values (pointers, maps, channels, funcs)
// are stored as the reference itself (>= 0, below the allocation watermark);
// every other value goes through an injective box function whose range is
// negative, so that "payload < ALLOC" holds for every interface value and
// freshness of a boxed pointer can be decided.
func isRefLike(t types.Type) bool {
	switch u := t.Underlying().(type) {
	case *types.Pointer, *types.Map, *types.Chan, *types.Signature:
		return true
	case *types.Basic:
		return u.Kind() == types.UnsafePointer
	}
	return false
}

func (r *sortReg) boxFns(sortName string) (b, u string) {
	key := strings.NewReplacer("(", "_", ")", "_", " ", "_", "|", "").Replace(sortName)
	b, u = q("box!"+key), q("unbox!"+key)
	if !r.boxSorts[sortName] {
		r.boxSorts[sortName] = true
		r.declareFun(b, fmt.Sprintf("(declare-fun %s (%s) Int)", b, sortName))
		r.declareFun(u, fmt.Sprintf("(declare-fun %s (Int) %s)", u, sortName))
		r.extraAxioms = append(r.extraAxioms, fmt.Sprintf("(assert (forall ((x %s)) (! (and (= (%s (%s x)) x) (< (%s x) 0)) :pattern ((%s x)))))", sortName, u, b, b, b))
	}
	return b, u
}

func (r *sortReg) boxT(t types.Type, x string) string {
	if isRefLike(t) {
		return x
	}
	b, _ := r.boxFns(r.sortOf(t))
	return S(b, x)
}

func (r *sortReg) unboxT(t types.Type, x string) string {
	if isRefLike(t) {
		return x
	}
	_, u := r.boxFns(r.sortOf(t))
	return S(u, x)
}

const smtPreludeCore = `(declare-datatypes ((Slice 0)) (((mk-slice (s-base Int) (s-off Int) (s-len Int) (s-cap Int)))))
(declare-datatypes ((Iface 0)) (((mk-iface (i-tag Int) (i-val Int)))))
(define-fun godiv ((x Int) (y Int)) Int (ite (>= x 0) (ite (> y 0) (div x y) (- (div x (- y)))) (ite (> y 0) (- (div (- x) y)) (div (- x) (- y)))))
(define-fun gorem ((x Int) (y Int)) Int (- x (* y (godiv x y))))
`

// optional prelude groups: included only when the script mentions one of the trigger symbols
var smtPreludeGroups = []struct {
	triggers []string
	text     string
}{
	{[]string{"strlen", "strbyte", "substr", "strcat", "str2bytes", "bytes2str", "rune2str", "|str!"}, `(declare-fun strlen (Int) Int)
(declare-fun strbyte (Int Int) Int)
(declare-fun substr (Int Int Int) Int)
(declare-fun strcat (Int Int) Int)
(declare-fun rune2str (Int) Int)
(assert (forall ((s Int)) (! (and (>= (strlen s) 0) (<= (strlen s) 1099511627776)) :pattern ((strlen s)))))
(assert (= (strlen 0) 0))
(assert (forall ((s Int)) (! (=> (= (strlen s) 0) (= s 0)) :pattern ((strlen s)))))
(assert (forall ((s Int) (i Int)) (! (and (<= 0 (strbyte s i)) (<= (strbyte s i) 255)) :pattern ((strbyte s i)))))
(assert (forall ((s Int) (a Int) (b Int)) (! (=> (and (<= 0 a) (<= a b) (<= b (strlen s))) (= (strlen (substr s a b)) (- b a))) :pattern ((substr s a b)))))
(assert (forall ((s Int) (a Int) (b Int) (i Int)) (! (=> (and (<= 0 a) (<= a b) (<= b (strlen s)) (<= 0 i) (< i (- b a))) (= (strbyte (substr s a b) i) (strbyte s (+ a i)))) :pattern ((strbyte (substr s a b) i)))))
(assert (forall ((a Int) (b Int)) (! (= (strlen (strcat a b)) (+ (strlen a) (strlen b))) :pattern ((strcat a b)))))
(assert (forall ((x Int)) (! (and (<= 1 (strlen (rune2str x))) (<= (strlen (rune2str x)) 4)) :pattern ((rune2str x)))))
`},
	{[]string{"bvand", "bvor", "bvxor", "bvshl", "bvshr", "bvnot", "bvandnot"}, `(declare-fun bvand (Int Int) Int)
(declare-fun bvor (Int Int) Int)
(declare-fun bvxor (Int Int) Int)
(declare-fun bvshl (Int Int) Int)
(declare-fun bvshr (Int Int) Int)
(declare-fun bvnot (Int) Int)
(declare-fun bvandnot (Int Int) Int)
(assert (forall ((x Int) (y Int)) (! (=> (and (>= x 0) (>= y 0)) (and (<= 0 (bvand x y)) (<= (bvand x y) x) (<= (bvand x y) y))) :pattern ((bvand x y)))))
(assert (forall ((x Int) (y Int)) (! (=> (>= y 0) (and (<= 0 (bvand x y)) (<= (bvand x y) y))) :pattern ((bvand x y)))))
(assert (forall ((x Int) (y Int)) (! (=> (and (>= x 0) (>= y 0)) (and (>= (bvor x y) x) (>= (bvor x y) y))) :pattern ((bvor x y)))))
(assert (forall ((x Int) (y Int)) (! (=> (and (>= x 0) (>= y 0)) (and (<= 0 (bvshr x y)) (<= (bvshr x y) x))) :pattern ((bvshr x y)))))
`},
	{[]string{"(wrap "}, `(declare-fun wrap (Int Int Int) Int)
(assert (forall ((x Int) (lo Int) (hi Int)) (! (=> (<= lo hi) (and (<= lo (wrap x lo hi)) (<= (wrap x lo hi) hi) (=> (and (<= lo x) (<= x hi)) (= (wrap x lo hi) x)))) :pattern ((wrap x lo hi)))))
`},
	{[]string{"(f2i "}, `(declare-fun f2i (Real) Int)
(assert (forall ((x Real)) (! (ite (>= x 0.0) (= (f2i x) (to_int x)) (= (f2i x) (- (to_int (- x))))) :pattern ((f2i x)))))
`},
}

func smtPreludeFor(body string) string {
	var b strings.Builder
	b.WriteString(smtPreludeCore)
	for _, g := range smtPreludeGroups {
		for _, t := range g.triggers {
			if strings.Contains(body, t) {
				b.WriteString(g.text)
				break
			}
		}
	}
	return b.String()
}

func intRange(b *types.Basic) (lo, hi *big.Int, ok bool) {
	two := big.NewInt(2)
	pow := func(n int64) *big.Int { return new(big.Int).Exp(two, big.NewInt(n), nil) }
	switch b.Kind() {
	case types.Int8:
		return new(big.Int).Neg(pow(7)), new(big.Int).Sub(pow(7), big.NewInt(1)), true
	case types.Int16:
		return new(big.Int).Neg(pow(15)), new(big.Int).Sub(pow(15), big.NewInt(1)), true
	case types.Int32:
		return new(big.Int).Neg(pow(31)), new(big.Int).Sub(pow(31), big.NewInt(1)), true
	case types.Int, types.Int64:
		return new(big.Int).Neg(pow(63)), new(big.Int).Sub(pow(63), big.NewInt(1)), true
	case types.Uint8:
		return big.NewInt(0), new(big.Int).Sub(pow(8), big.NewInt(1)), true
	case types.Uint16:
		return big.NewInt(0), new(big.Int).Sub(pow(16), big.NewInt(1)), true
	case types.Uint32:
		return big.NewInt(0), new(big.Int).Sub(pow(32), big.NewInt(1)), true
	case types.Uint, types.Uint64, types.Uintptr:
		return big.NewInt(0), new(big.Int).Sub(pow(64), big.NewInt(1)), true
	}
	return nil, nil, false
}

// prelude text for registries gathered during generation
func (r *sortReg) preludeText(lookupImpl func(t types.Type, it *types.Interface) bool) string {
	var b strings.Builder
	for _, d := range r.structDecl {
		b.WriteString(d + "\n")
	}
	for _, sym := range r.uninterpOrd {
		b.WriteString(r.uninterp[sym] + "\n")
	}
	for _, a := range r.extraAxioms {
		b.WriteString(a + "\n")
	}
	// string constants
	for i, s := range r.strOrder {
		c := r.strConsts[s]
		fmt.Fprintf(&b, "(declare-const %s Int)\n(assert (= (strlen %s) %d))\n", c, c, len(s))
		if len(s) <= 24 {
			for j := 0; j < len(s); j++ {
				fmt.Fprintf(&b, "(assert (= (strbyte %s %d) %d))\n", c, j, s[j])
			}
		}
		_ = i
	}
	if len(r.strOrder) > 1 {
		var cs []string
		for _, s := range r.strOrder {
			cs = append(cs, r.strConsts[s])
		}
		fmt.Fprintf(&b, "(assert (distinct 0 %s))\n", strings.Join(cs, " "))
	} else if len(r.strOrder) == 1 {
		fmt.Fprintf(&b, "(assert (not (= 0 %s)))\n", r.strConsts[r.strOrder[0]])
	}
	// impl facts
	var iks []string
	for k := range r.ifaces {
		iks = append(iks, k)
	}
	sort.Strings(iks)
	for _, k := range iks {
		sym := q("impl!" + shortTypeKey(r.ifaceNamed[k]))
		fmt.Fprintf(&b, "(declare-fun %s (Int) Bool)\n(assert (not (%s 0)))\n", sym, sym)
		for i, t := range r.tagTypes {
			if lookupImpl(t, r.ifaces[k]) {
				fmt.Fprintf(&b, "(assert (%s %d))\n", sym, i+1)
			} else {
				fmt.Fprintf(&b, "(assert (not (%s %d)))\n", sym, i+1)
			}
		}
	}
	return b.String()
}
