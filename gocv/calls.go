package main

import (
	"fmt"
	"go/token"
	"go/types"
	"regexp"
	"strings"

	"golang.org/x/tools/go/ssa"
)

type callArgs struct {
	args  []string // for static method calls args[0] is the receiver; for invoke recv is separate
	argTs []types.Type
	recv  string
	recvT types.Type
	st    *state // the state the arguments were captured in
}

func (g *fnGen) captureArgs(st *state, cc *ssa.CallCommon) *callArgs {
	ca := &callArgs{st: st}
	if cc.IsInvoke() {
		ca.recv = g.val(st, cc.Value)
		ca.recvT = cc.Value.Type()
	} else if _, ok := cc.Value.(*ssa.Builtin); !ok {
		if _, isFn := cc.Value.(*ssa.Function); !isFn {
			g.val(st, cc.Value)
		}
	}
	for _, a := range cc.Args {
		ca.args = append(ca.args, g.val(st, a))
		ca.argTs = append(ca.argTs, a.Type())
	}
	return ca
}

func (g *fnGen) doCall(st *state, cc *ssa.CallCommon, instr ssa.Instruction, resV ssa.Value) {
	g.doCallWithArgs(st, cc, instr, resV, g.captureArgs(st, cc))
}

func (g *fnGen) setResult(st *state, resV ssa.Value, res []string) {
	if resV == nil {
		return
	}
	if tup, ok := resV.Type().(*types.Tuple); ok {
		if tup.Len() > 0 {
			g.tuples[resV] = res
		}
		return
	}
	if len(res) > 0 {
		g.vals[resV] = res[0]
	}
}

func (g *fnGen) freshResults(st *state, sig *types.Signature, prefix string) []string {
	var res []string
	for i := 0; i < sig.Results().Len(); i++ {
		t := sig.Results().At(i).Type()
		c := g.freshConst(prefix, g.R.sortOf(t))
		g.typeFacts(st, c, t)
		res = append(res, c)
	}
	return res
}

// contractFor finds the contract governing a call.
func (g *fnGen) contractFor(cc *ssa.CallCommon) (ct *FuncContract, calleeName string, calleePkg *types.Package, sig *types.Signature) {
	if cc.IsInvoke() {
		sig = cc.Method.Type().(*types.Signature)
		calleeName = cc.Method.FullName()
		calleePkg = cc.Method.Pkg()
		// static interface type first, then the interface that declares the method
		var cands []types.Type
		cands = append(cands, cc.Value.Type())
		if r := sig.Recv(); r != nil {
			cands = append(cands, r.Type())
		}
		for _, t := range cands {
			if n, ok := t.(*types.Named); ok && n.Obj().Pkg() != nil {
				key := n.Obj().Pkg().Path() + "." + n.Obj().Name() + "." + cc.Method.Name()
				if c, ok := g.P.cs.Ifaces[key]; ok {
					g.usedContracts["iface "+key] = true
					return c, calleeName, calleePkg, sig
				}
			}
		}
		return nil, calleeName, calleePkg, sig
	}
	if f := cc.StaticCallee(); f != nil {
		instSig := f.Signature // instantiated signature (result sorts must not be type parameters)
		if f.Origin() != nil {
			f = f.Origin()
		}
		sig = cc.Signature()
		calleeName = f.String()
		if f.Pkg != nil {
			calleePkg = f.Pkg.Pkg
		} else if f.Object() != nil {
			calleePkg = f.Object().Pkg()
		}
		if c, ok := g.P.cs.Funcs[calleeName]; ok {
			if c.Extern {
				g.usedContracts["extern "+calleeName] = true
			}
			return c, calleeName, calleePkg, instSig
		}
		return nil, calleeName, calleePkg, instSig
	}
	// a call through a local variable that holds one closure literal (`probe := func(...) {...}; probe(x)`)
	// is a call of that closure: its contract (`func Outer$N`) governs it
	if mc := closureOf(cc.Value); mc != nil {
		if f, ok := mc.Fn.(*ssa.Function); ok {
			calleeName = f.String()
			if g.typesPkgOfFn() != nil {
				calleePkg = g.typesPkgOfFn()
			}
			if c, ok := g.P.cs.Funcs[calleeName]; ok {
				return c, calleeName, calleePkg, f.Signature
			}
			return nil, calleeName, calleePkg, f.Signature
		}
	}
	return nil, "dynamic call", nil, cc.Signature()
}

// closureOf: the closure literal a called value denotes — the MakeClosure itself, or a load from a local
// that is assigned exactly once, with a closure literal.
func closureOf(v ssa.Value) *ssa.MakeClosure {
	switch x := v.(type) {
	case *ssa.MakeClosure:
		return x
	case *ssa.UnOp:
		if x.Op != token.MUL {
			return nil
		}
		al, ok := x.X.(*ssa.Alloc)
		if !ok || al.Referrers() == nil {
			return nil
		}
		var mc *ssa.MakeClosure
		for _, ref := range *al.Referrers() {
			switch r := ref.(type) {
			case *ssa.Store:
				if r.Addr != al {
					return nil // the address escapes into memory
				}
				m, ok := r.Val.(*ssa.MakeClosure)
				if !ok || mc != nil {
					return nil
				}
				mc = m
			case *ssa.UnOp, *ssa.DebugRef:
			default:
				return nil
			}
		}
		return mc
	}
	return nil
}

func (g *fnGen) isPure(cc *ssa.CallCommon, name string) bool {
	if cc.IsInvoke() {
		return g.P.cs.Pure[name]
	}
	f := cc.StaticCallee()
	if f == nil {
		return false
	}
	if g.P.cs.Pure[name] {
		return true
	}
	var pkg *types.Package
	if f.Pkg != nil {
		pkg = f.Pkg.Pkg
	} else if f.Object() != nil {
		pkg = f.Object().Pkg()
	}
	if pkg != nil && g.P.cs.PurePkg[pkg.Path()] {
		return true
	}
	return false
}

// paramBindings builds name -> (term,type) for a callee contract.
func (g *fnGen) paramBindings(ct *FuncContract, cc *ssa.CallCommon, sig *types.Signature, ca *callArgs) map[string]binding {
	names := map[string]binding{}
	var pnames []string
	var ptypes []types.Type
	if cc.IsInvoke() {
		names["self"] = binding{ca.recv, ca.recvT}
	} else if sig.Recv() != nil {
		n := sig.Recv().Name()
		if n == "" || n == "_" {
			n = "self"
		}
		pnames = append(pnames, n)
		ptypes = append(ptypes, sig.Recv().Type())
	}
	for i := 0; i < sig.Params().Len(); i++ {
		p := sig.Params().At(i)
		n := p.Name()
		if n == "" || n == "_" {
			n = fmt.Sprintf("p%d", i)
		}
		pnames = append(pnames, n)
		ptypes = append(ptypes, p.Type())
	}
	if ct != nil && len(ct.ParamNames) == len(pnames) {
		pnames = ct.ParamNames
	}
	for i, n := range pnames {
		if i < len(ca.args) {
			names[n] = binding{ca.args[i], ptypes[i]}
			names[fmt.Sprintf("$%d", i)] = binding{ca.args[i], ptypes[i]}
		}
	}
	if sig.Recv() != nil && !cc.IsInvoke() && len(ca.args) > 0 {
		names["self"] = binding{ca.args[0], ptypes[0]}
	}
	// a closure literal called through a local: its captured variables, by name, at their value at the
	// call — only for closures whose contract says `assigns nothing` (the value cannot change under the call)
	if ct != nil && ct.HasAssigns && len(ct.Assigns) == 0 && ca.st != nil {
		if mc := closureOf(cc.Value); mc != nil {
			if f, ok := mc.Fn.(*ssa.Function); ok {
				for i, fv := range f.FreeVars {
					if i >= len(mc.Bindings) {
						break
					}
					if _, clash := names[fv.Name()]; clash {
						continue
					}
					a := g.resolveAddr(ca.st, mc.Bindings[i])
					if a == nil || a.isField || a.isElem || a.sharedDecl != nil {
						continue
					}
					names[fv.Name()] = binding{g.load(ca.st, a, nil), deref(fv.Type())}
				}
			}
		}
	}
	return names
}

func (g *fnGen) resultBindings(ct *FuncContract, sig *types.Signature, res []string, names map[string]binding) {
	for i := 0; i < sig.Results().Len() && i < len(res); i++ {
		rv := sig.Results().At(i)
		b := binding{res[i], rv.Type()}
		if rv.Name() != "" && rv.Name() != "_" {
			if _, clash := names[rv.Name()]; !clash {
				names[rv.Name()] = b
			}
		}
		if ct != nil && i < len(ct.ResNames) {
			names[ct.ResNames[i]] = b
		}
		names[fmt.Sprintf("result%d", i)] = b
		names[fmt.Sprintf("$ret%d", i)] = b
		if i == 0 {
			names["result"] = b
			names["$ret"] = b
		}
	}
}

func (g *fnGen) callSiteKey(cc *ssa.CallCommon) (text string, ord int) {
	text = g.anchor(cc.Pos(), "")
	if text == "" {
		if f := cc.StaticCallee(); f != nil {
			text = f.Name()
		} else if cc.IsInvoke() {
			text = cc.Method.Name()
		} else {
			text = "call"
		}
	}
	if o, ok := g.callPosOrd[cc.Pos()]; ok {
		return text, o
	}
	g.callOrd[text]++
	return text, g.callOrd[text]
}

func (g *fnGen) doCallWithArgs(st *state, cc *ssa.CallCommon, instr ssa.Instruction, resV ssa.Value, ca *callArgs) {
	if b, ok := cc.Value.(*ssa.Builtin); ok {
		// built-ins (len, append, copy, ...) are call sites for hooks too
		btext, bord := g.callSiteKey(cc)
		bnames := map[string]binding{}
		for i, a := range ca.args {
			bnames[fmt.Sprintf("$%d", i)] = binding{a, ca.argTs[i]}
		}
		g.runHooks(st, "at", btext, bord, bnames, instr)
		g.doBuiltin(st, b, cc, instr, resV, ca)
		if resV != nil {
			if t, ok := g.vals[resV]; ok {
				bnames["$ret"] = binding{t, resV.Type()}
				bnames["$ret0"] = bnames["$ret"]
			}
		}
		g.runHooks(st, "after", btext, bord, bnames, instr)
		return
	}
	ct, calleeName, calleePkg, sig := g.contractFor(cc)
	text, ord := g.callSiteKey(cc)
	site := fmt.Sprintf("%s#%d", text, ord)

	if g.ct != nil {
		for _, f := range g.ct.Forbid {
			if re, err := regexp.Compile(f); err == nil && re.MatchString(calleeName) {
				g.oblige(st, "forbidden-call", site, cc.Pos(), "", "false", "call to "+shortName(calleeName)+" is forbidden here by the contract (forbid "+f+")")
			}
		}
	}
	// readonly-receiver: handing the receiver to a callee that may write it
	if g.ct != nil && g.ct.Flags["readonly-receiver"] && len(g.fn.Params) > 0 && g.fn.Signature.Recv() != nil {
		recv := g.vals[g.fn.Params[0]]
		for _, a := range ca.args {
			if a != recv {
				continue
			}
			safe := g.isPure(cc, calleeName)
			if ct != nil && (ct.Flags["readonly-receiver"] || (ct.HasAssigns && len(ct.Assigns) == 0)) {
				safe = true
			}
			if !safe {
				g.oblige(st, "readonly", "call "+site, cc.Pos(), "", "false", "the receiver is handed to "+shortName(calleeName)+", which has no contract keeping it unwritten")
			}
			break
		}
	}
	// "at" hooks
	hookNames := map[string]binding{}
	for i, a := range ca.args {
		hookNames[fmt.Sprintf("$%d", i)] = binding{a, ca.argTs[i]}
	}
	if cc.IsInvoke() {
		hookNames["$recv"] = binding{ca.recv, ca.recvT}
	} else if len(ca.args) > 0 {
		hookNames["$recv"] = hookNames["$0"]
	}
	g.runHooks(st, "at", text, ord, hookNames, instr)

	if strings.HasPrefix(calleeName, "(*sync.") && strings.HasSuffix(calleeName, ").Unlock") {
		// (a read section cannot write guarded state — guard-write obligations — so only write releases re-establish the invariant)
		g.lockReleased(st, cc, site)
	}
	pre := st.clone()
	var res []string
	if ct != nil {
		names := g.paramBindings(ct, cc, sig, ca)
		env := &evalEnv{g: g, cur: st, old: pre, mode: "callee", names: names, pkg: calleePkg, calleeCt: ct}
		for i, c := range ct.Requires {
			t, err := g.evalBool(c.E, env)
			if err != nil {
				g.stale = append(g.stale, fmt.Sprintf("callee %s requires %q: %v", calleeName, c.Src, err))
				continue
			}
			g.oblige(st, "pre", site+":"+clauseLabel(c, i), cc.Pos(), "", t, "precondition of "+shortName(calleeName)+": "+c.Src)
		}
		// recursion: the callee's measure must be smaller than the caller's (both under contract with a measure)
		if ct.Decreases != nil && g.ct != nil && g.ct.Decreases != nil {
			cm, _, err1 := g.eval(ct.Decreases.E, env)
			mm, _, err2 := g.eval(g.ct.Decreases.E, &evalEnv{g: g, cur: g.entry, old: g.entry, mode: "pre"})
			if err1 == nil && err2 == nil {
				g.oblige(st, "decreases-call", site, cc.Pos(), "", And(S("<=", "0", cm), S("<", cm, mm)), "recursion measure decreases at call to "+shortName(calleeName))
			} else {
				g.stale = append(g.stale, fmt.Sprintf("decreases at call %s: %v %v", site, err1, err2))
			}
		}
		// frame
		if !ct.HasAssigns {
			g.callerFrameAll(st, calleeName, cc)
			g.havocAll(st)
		} else {
			for _, a := range ct.Assigns {
				if a.All {
					g.callerFrameAll(st, calleeName, cc)
					g.havocAll(st)
					continue
				}
				locs, err := g.evalLoc(a.E, &evalEnv{g: g, cur: pre, old: pre, mode: "callee", names: names, pkg: calleePkg, calleeCt: ct})
				if err != nil {
					g.stale = append(g.stale, fmt.Sprintf("callee %s assigns %q: %v", calleeName, a.Src, err))
					g.havocAll(st)
					continue
				}
				for _, l := range locs {
					g.callerFrameLoc(st, l, calleeName, cc)
					g.havocLoc(st, l)
				}
			}
		}
		na := g.freshConst("ALLOC", "Int")
		g.assume(st, S(">=", na, st.alloc))
		st.alloc = na
		res = g.freshResults(st, sig, "ret")
		g.resultBindings(ct, sig, res, names)
		env2 := &evalEnv{g: g, cur: st, old: pre, mode: "callee", names: names, pkg: calleePkg, calleeCt: ct}
		for _, c := range ct.Ensures {
			if mentionsGhostVar(c.E, ct) {
				continue // postcondition over the callee's internal ghost variables: proved there, not usable here
			}
			t, err := g.evalBool(c.E, env2)
			if err != nil {
				g.stale = append(g.stale, fmt.Sprintf("callee %s ensures %q: %v", calleeName, c.Src, err))
				continue
			}
			g.assume(st, t)
		}
		if strings.HasPrefix(calleeName, "(*sync.") && (strings.HasSuffix(calleeName, ").Lock") || strings.HasSuffix(calleeName, ").RLock")) {
			g.lockAcquired(st, cc)
		}
		if ct.Extern || ct.Iface {
			g.assumptions[fmt.Sprintf("assumed contract: %s", calleeName)] = true
		} else {
			g.usedContracts["func "+calleeName] = true
		}
	} else {
		if g.isPure(cc, calleeName) {
			res = g.freshResults(st, sig, "ret")
			g.assumptions["treated as pure (no heap effects): "+shortName(calleeName)] = true
		} else {
			g.callerFrameAll(st, calleeName, cc)
			g.havocAll(st)
			res = g.freshResults(st, sig, "ret")
			g.uncontracted[shortName(calleeName)] = true
		}
	}
	g.setResult(st, resV, res)
	for i, r := range res {
		hookNames[fmt.Sprintf("$ret%d", i)] = binding{r, sig.Results().At(i).Type()}
		if i == 0 {
			hookNames["$ret"] = hookNames["$ret0"]
		}
	}
	g.runHooks(st, "after", text, ord, hookNames, instr)
}

func shortName(s string) string {
	s = strings.ReplaceAll(s, "github.com/php-any/origami/", "")
	return s
}

func (g *fnGen) havocLoc(st *state, l assignLoc) {
	g.registerArray(l.array, l.srt)
	if l.key == "" {
		g.havocArray(st, l.array)
		return
	}
	arr := g.heapArray(st, l.array, l.srt)
	n := g.freshConst(l.array, l.srt)
	// element sort = range sort of the array
	es := arrayRangeSort(l.srt)
	v := g.freshConst("hv", es)
	g.assert(S("=", n, S("store", arr, l.key, v)))
	st.heap[l.array] = n
}

// arrayRangeSort: "(Array Int X)" -> "X"
func arrayRangeSort(s string) string {
	s = strings.TrimSpace(s)
	if !strings.HasPrefix(s, "(Array ") {
		return "Int"
	}
	inner := s[len("(Array ") : len(s)-1]
	// first sort then rest
	depth := 0
	for i, c := range inner {
		switch c {
		case '(':
			depth++
		case ')':
			depth--
		case ' ':
			if depth == 0 {
				return strings.TrimSpace(inner[i+1:])
			}
		}
	}
	return "Int"
}

func (g *fnGen) callerFrameAll(st *state, callee string, cc *ssa.CallCommon) {
	if g.noFrame || g.ct == nil || !g.ct.HasAssigns {
		return
	}
	g.frameLocs()
	if g.frameAll {
		return
	}
	text, ord := g.callSiteKey(cc)
	g.oblige(st, "frame", fmt.Sprintf("call %s#%d", text, ord), cc.Pos(), "", "false", "call to "+shortName(callee)+" has no frame (may write anything) inside a function with an assigns clause")
}

func (g *fnGen) callerFrameLoc(st *state, l assignLoc, callee string, cc *ssa.CallCommon) {
	if g.noFrame || g.ct == nil || !g.ct.HasAssigns {
		return
	}
	locs := g.frameLocs()
	if g.frameAll {
		return
	}
	var allowed []string
	for _, m := range locs {
		if m.array != l.array {
			continue
		}
		if m.key == "" {
			return
		}
		if l.key != "" {
			allowed = append(allowed, S("=", l.key, m.key))
		}
	}
	if l.key != "" && strings.HasPrefix(l.srt, "(Array Int ") {
		allowed = append(allowed, S(">=", l.key, g.frameEntryAlloc))
	}
	text, ord := g.callSiteKey(cc)
	g.oblige(st, "frame", fmt.Sprintf("call %s#%d -> %s", text, ord, strings.TrimPrefix(l.array, "F!")), cc.Pos(), "", Or(allowed...), "effects of "+shortName(callee)+" stay inside the caller's assigns clause: "+l.array)
}

func (g *fnGen) runHooks(st *state, when, text string, ord int, names map[string]binding, instr ssa.Instruction) {
	if g.ct == nil {
		return
	}
	for _, h := range g.ct.Hooks {
		if h.When != when || !h.matchesCallee(text) || (h.Ord != 0 && h.Ord != ord) {
			continue
		}
		h.used = true
		env := &evalEnv{g: g, cur: st, old: g.entry, mode: "hook", names: names}
		switch h.Kind {
		case "assert":
			t, err := g.evalBool(h.E, env)
			if err != nil {
				g.stale = append(g.stale, fmt.Sprintf("hook %q: %v", h.Src, err))
				continue
			}
			label := h.Label
			if label == "" {
				label = "assert"
			}
			g.oblige(st, "hook", fmt.Sprintf("%s %s#%d:%s", when, text, ord, label), instr.Pos(), "", t, "call-site assertion: "+h.Src)
		case "assume":
			t, err := g.evalBool(h.E, env)
			if err != nil {
				g.stale = append(g.stale, fmt.Sprintf("hook %q: %v", h.Src, err))
				continue
			}
			g.assume(st, t)
			g.assumptions["call-site assumption: "+h.Src] = true
		case "set":
			t, ty, err := g.eval(h.E, env)
			if err != nil {
				g.stale = append(g.stale, fmt.Sprintf("hook %q: %v", h.Src, err))
				continue
			}
			if id, ok := h.Target.(*SIdent); ok {
				if _, isGhost := st.ghost[id.Name]; isGhost {
					gt := g.ghostTypes[id.Name]
					if isNilType(ty) {
						t = g.R.zero(gt)
					} else if _, gi := gt.Underlying().(*types.Interface); gi && ty != nil {
						if _, vi := ty.Underlying().(*types.Interface); !vi {
							// a concrete value stored into an interface-typed ghost: Go's implicit conversion
							t = S("mk-iface", fmt.Sprint(g.R.tagOf(ty)), g.R.boxT(ty, t))
						}
					}
					st.ghost[id.Name] = g.define("g!"+id.Name, g.R.sortOf(gt), t)
					continue
				}
			}
			locs, err := g.evalLoc(h.Target, env)
			if err != nil || len(locs) != 1 || locs[0].key == "" {
				g.stale = append(g.stale, fmt.Sprintf("hook set target %q not assignable", h.Src))
				continue
			}
			l := locs[0]
			arr := g.heapArray(st, l.array, l.srt)
			n := g.freshConst(l.array, l.srt)
			g.assert(S("=", n, S("store", arr, l.key, t)))
			st.heap[l.array] = n
		}
	}
}

func (g *fnGen) initGhosts(st *state) {
	g.ghostTypes = map[string]types.Type{}
	if g.ct == nil {
		return
	}
	for _, gv := range g.ct.Ghosts {
		ty, err := g.P.resolveType(gv.Type, g.typesPkgOfFn(), g.P.cs.Imports[g.ct.PkgPath])
		if err != nil {
			g.stale = append(g.stale, fmt.Sprintf("ghost var %s: %v", gv.Name, err))
			continue
		}
		g.ghostTypes[gv.Name] = ty
		if id, ok := gv.Init.(*SIdent); ok && id.Name == "arbitrary" {
			// no particular initial value (the contract sets the variable before it reads it)
			st.ghost[gv.Name] = g.freshConst("hg!"+gv.Name, g.R.sortOf(ty))
			continue
		}
		t, ety, err := g.eval(gv.Init, &evalEnv{g: g, cur: st, old: st, mode: "pre"})
		if err != nil {
			g.stale = append(g.stale, fmt.Sprintf("ghost var %s init: %v", gv.Name, err))
			continue
		}
		if isNilType(ety) {
			t = g.R.zero(ty)
		}
		st.ghost[gv.Name] = t
	}
}

// callEffects: the arrays a call inside a loop may modify (for the loop havoc)
func (g *fnGen) callEffects(cc *ssa.CallCommon, instr ssa.Instruction, li *loopInfo) {
	if b, ok := cc.Value.(*ssa.Builtin); ok {
		switch b.Name() {
		case "append", "copy":
			if len(cc.Args) > 0 {
				if sl, ok := cc.Args[0].Type().Underlying().(*types.Slice); ok {
					if _, isStruct := sl.Elem().Underlying().(*types.Struct); isStruct {
						g.structArrays(sl.Elem(), li)
					} else {
						g.modArr(li, g.elemArrayName(sl.Elem()), "(Array Int (Array Int "+g.R.sortOf(sl.Elem())+"))")
					}
				}
			}
		case "delete":
			if mt, ok := cc.Args[0].Type().Underlying().(*types.Map); ok {
				g.mapArrays(mt, func(n, srt string) { g.modArr(li, n, srt) })
			}
		case "close":
			g.modArr(li, "G!chanclosed", "(Array Int Bool)")
		}
		return
	}
	ct, name, calleePkg, sig := g.contractFor(cc)
	// hooks that set ghost state
	if g.ct != nil {
		text := g.anchor(cc.Pos(), "")
		for _, h := range g.ct.Hooks {
			if o, known := g.callPosOrd[cc.Pos()]; known && h.Ord != 0 && h.Ord != o {
				continue
			}
			if h.matchesCallee(text) && h.Kind == "set" {
				if id, ok := h.Target.(*SIdent); ok {
					li.modGhost[id.Name] = true
				} else if c, ok := h.Target.(*SCall); ok {
					if id, ok := c.Fun.(*SIdent); ok {
						if gf := g.P.cs.Ghosts[id.Name]; gf != nil {
							n, srt, err := g.ghostArray(gf)
							if err == nil {
								g.modArr(li, n, srt)
							}
						}
					}
				}
			}
		}
	}
	if ct == nil {
		if !g.isPure(cc, name) {
			li.modAll = true
		}
		return
	}
	if !ct.HasAssigns {
		li.modAll = true
		return
	}
	// dummy bindings: only array names matter
	ca := &callArgs{recv: g.R.zero(types.NewInterfaceType(nil, nil))}
	if cc.IsInvoke() {
		ca.recvT = cc.Value.Type()
	}
	for _, a := range cc.Args {
		ca.args = append(ca.args, g.R.zero(a.Type()))
		ca.argTs = append(ca.argTs, a.Type())
	}
	names := g.paramBindings(ct, cc, sig, ca)
	for _, a := range ct.Assigns {
		if a.All {
			li.modAll = true
			continue
		}
		locs, err := g.evalLoc(a.E, &evalEnv{g: g, cur: g.entry, old: g.entry, mode: "callee", names: names, pkg: calleePkg, calleeCt: ct, dry: true})
		if err != nil {
			li.modAll = true
			continue
		}
		for _, l := range locs {
			g.modArr(li, l.array, l.srt)
		}
	}
}

// ---- builtins ---------------------------------------------------------------------------------

func (g *fnGen) doBuiltin(st *state, b *ssa.Builtin, cc *ssa.CallCommon, instr ssa.Instruction, resV ssa.Value, ca *callArgs) {
	set := func(t string) {
		if resV != nil {
			g.vals[resV] = t
		}
	}
	switch b.Name() {
	case "len":
		x, t := ca.args[0], ca.argTs[0]
		switch t.Underlying().(type) {
		case *types.Basic:
			set(S("strlen", x))
		case *types.Slice:
			set(S("s-len", x))
		case *types.Pointer: // *array
			at := deref(t).Underlying().(*types.Array)
			set(fmt.Sprint(at.Len()))
		case *types.Array:
			set(fmt.Sprint(t.Underlying().(*types.Array).Len()))
		default:
			if p := g.prov[cc.Args[0]]; p != nil {
				g.guardObligation(st, p, false, instr)
			}
			c := g.freshConst("len", "Int")
			g.assume(st, And(S(">=", c, "0"), S("<=", c, "1099511627776")))
			g.assumptions["a map or channel holds fewer than 2^40 entries"] = true
			set(c)
		}
	case "cap":
		x, t := ca.args[0], ca.argTs[0]
		if _, ok := t.Underlying().(*types.Slice); ok {
			set(S("s-cap", x))
		} else {
			c := g.freshConst("cap", "Int")
			g.assume(st, S(">=", c, "0"))
			set(c)
		}
	case "append":
		g.doAppend(st, cc, resV, ca)
	case "copy":
		dst := ca.args[0]
		var copyInner, copyOldDst, copyArr string
		if sl, ok := ca.argTs[0].Underlying().(*types.Slice); ok {
			if _, isStruct := sl.Elem().Underlying().(*types.Struct); !isStruct {
				name := g.elemArrayName(sl.Elem())
				srt := "(Array Int (Array Int " + g.R.sortOf(sl.Elem()) + "))"
				g.frameObligation(st, "elem", S("s-base", dst), name, instr)
				arr := g.heapArray(st, name, srt)
				n := g.freshConst(name, srt)
				inner := g.freshConst("copied", "(Array Int "+g.R.sortOf(sl.Elem())+")")
				g.assert(S("=", n, S("store", arr, S("s-base", dst), inner)))
				st.heap[name] = n
				copyInner, copyOldDst, copyArr = inner, S("select", arr, S("s-base", dst)), arr
			} else {
				g.abstracted["copy of struct slice"] = true
			}
		}
		c := g.freshConst("copyn", "Int")
		srcLen := S("s-len", ca.args[1])
		if isString(ca.argTs[1]) {
			srcLen = S("strlen", ca.args[1])
		}
		g.assume(st, And(S(">=", c, "0"), S("<=", c, S("s-len", dst)), S("<=", c, srcLen), Or(S("=", c, S("s-len", dst)), S("=", c, srcLen))))
		if copyInner != "" {
			// element-wise meaning of copy: the first c elements come from the (old) source, the rest of the backing array is kept
			g.nfresh++
			j := q(fmt.Sprintf("q!cp!%d", g.nfresh))
			off := S("-", j, S("s-off", dst))
			var from string
			if isString(ca.argTs[1]) {
				from = S("strbyte", ca.args[1], off)
			} else {
				from = S("select", S("select", copyArr, S("s-base", ca.args[1])), S("+", S("s-off", ca.args[1]), off))
			}
			inRange := And(S("<=", S("s-off", dst), j), S("<", j, S("+", S("s-off", dst), c)))
			g.assert(fmt.Sprintf("(forall ((%s Int)) (! (= (select %s %s) (ite %s %s (select %s %s))) :pattern ((select %s %s))))", j, copyInner, j, inRange, from, copyOldDst, j, copyInner, j))
		}
		set(c)
	case "delete":
		mt := ca.argTs[0].Underlying().(*types.Map)
		if p := g.prov[cc.Args[0]]; p != nil {
			g.guardObligation(st, p, true, instr)
		}
		g.frameObligationMap(st, ca.args[0], mt, instr)
		g.mapWrite(st, mt, ca.args[0], ca.args[1], "", false)
	case "close":
		ch := ca.args[0]
		arr := g.heapArray(st, "G!chanclosed", "(Array Int Bool)")
		g.oblige(st, "chan", "close "+g.anchorArg(cc), cc.Pos(), "", And(Not(S("=", ch, "0")), Not(S("select", arr, ch))), "close of nil or already closed channel")
		n := g.freshConst("G!chanclosed", "(Array Int Bool)")
		g.assert(S("=", n, S("store", arr, ch, "true")))
		st.heap["G!chanclosed"] = n
	case "min", "max":
		r := ca.args[0]
		for _, a := range ca.args[1:] {
			if b.Name() == "min" {
				r = S("ite", S("<=", r, a), r, a)
			} else {
				r = S("ite", S(">=", r, a), r, a)
			}
		}
		set(r)
	case "print", "println", "clear", "ssa:wrapnilchk", "ssa:deferstack", "recover":
		if resV != nil {
			if b.Name() == "ssa:wrapnilchk" && len(ca.args) > 0 {
				set(ca.args[0])
			} else if _, isTuple := resV.Type().(*types.Tuple); !isTuple {
				c := g.freshConst(strings.ReplaceAll(b.Name(), ":", "_"), g.R.sortOf(resV.Type()))
				set(c)
			}
		}
	default:
		g.abstracted["builtin "+b.Name()] = true
		if resV != nil {
			set(g.freshConst("builtin", g.R.sortOf(resV.Type())))
		}
	}
}

func (g *fnGen) anchorArg(cc *ssa.CallCommon) string {
	if len(cc.Args) > 0 {
		if ur, ok := cc.Args[0].(*ssa.UnOp); ok {
			if fa, ok := ur.X.(*ssa.FieldAddr); ok {
				return g.anchor(fa.Pos(), cc.Args[0].Name())
			}
		}
	}
	return "chan"
}

func (g *fnGen) doAppend(st *state, cc *ssa.CallCommon, resV ssa.Value, ca *callArgs) {
	s, t := ca.args[0], ca.args[1]
	sl := ca.argTs[0].Underlying().(*types.Slice)
	r := g.freshConst("app", "Slice")
	tlen := S("s-len", t)
	if isString(ca.argTs[1]) {
		tlen = S("strlen", t)
	}
	fresh := g.freshConst("appfresh", "Bool")
	nb := st.alloc
	na := g.freshConst("ALLOC", "Int")
	g.assert(S("=", na, S("+", st.alloc, "1")))
	st.alloc = na
	newLen := S("+", S("s-len", s), tlen)
	g.assume(st, And(
		S("=", S("s-len", r), newLen),
		S("<=", S("s-len", r), S("s-cap", r)),
		S("ite", fresh,
			And(S("=", S("s-base", r), nb), S("=", S("s-off", r), "0")),
			And(S("=", S("s-base", r), S("s-base", s)), S("=", S("s-off", r), S("s-off", s)), S("=", S("s-cap", r), S("s-cap", s)), Not(S("=", S("s-base", s), "0")))),
		Imp(S(">", newLen, S("s-cap", s)), fresh),
	))
	if resV != nil {
		g.vals[resV] = r
	}
	if g.ct != nil && g.ct.Flags["writes-only-fresh-slices"] {
		// append may write in place when the capacity allows: then the backing array must be this call's own
		site, _ := g.callSiteKey(cc)
		g.oblige(st, "fresh-write", "append "+site, cc.Pos(), "", Or(S("=", tlen, "0"), S(">", newLen, S("s-cap", s)), S(">=", S("s-base", s), g.entry.alloc)), "append either reallocates or extends a backing array allocated by this call (never writes into the spare capacity of memory that existed at entry)")
	}
	if _, isStruct := sl.Elem().Underlying().(*types.Struct); isStruct {
		g.abstracted["append to slice of structs: contents not modelled"] = true
		// struct fields keyed by element address: havoc nothing (new cells unconstrained)
		return
	}
	name := g.elemArrayName(sl.Elem())
	es := g.R.sortOf(sl.Elem())
	srt := "(Array Int (Array Int " + es + "))"
	arr := g.heapArray(st, name, srt)
	n := g.freshConst(name, srt)
	inner := g.freshConst("appinner", "(Array Int "+es+")")
	g.assert(S("=", n, S("store", arr, S("s-base", r), inner)))
	st.heap[name] = n
	oldInner := S("select", arr, S("s-base", s))
	ro, so := S("s-off", r), S("s-off", s)
	slen := S("s-len", s)
	// prefix preserved
	g.assume(st, fmt.Sprintf("(forall ((k Int)) (! (=> (and (<= %s k) (< k (+ %s %s))) (= (select %s k) (select %s (+ %s (- k %s))))) :pattern ((select %s k))))",
		ro, ro, slen, inner, oldInner, so, ro, inner))
	// appended elements
	if isString(ca.argTs[1]) {
		g.assume(st, fmt.Sprintf("(forall ((k Int)) (! (=> (and (<= (+ %s %s) k) (< k (+ %s %s %s))) (= (select %s k) (strbyte %s (- k (+ %s %s))))) :pattern ((select %s k))))",
			ro, slen, ro, slen, tlen, inner, t, ro, slen, inner))
	} else {
		tInner := S("select", arr, S("s-base", t))
		g.assume(st, Imp(S(">=", tlen, "1"), S("=", S("select", inner, S("+", ro, slen)), S("select", tInner, S("s-off", t)))))
		g.assume(st, fmt.Sprintf("(forall ((k Int)) (! (=> (and (<= (+ %s %s) k) (< k (+ %s %s %s))) (= (select %s k) (select %s (+ %s (- k (+ %s %s)))))) :pattern ((select %s k))))",
			ro, slen, ro, slen, tlen, inner, tInner, S("s-off", t), ro, slen, inner))
	}
	// in place: cells outside the written window keep their value
	g.assume(st, Imp(Not(fresh), fmt.Sprintf("(forall ((k Int)) (! (=> (or (< k (+ %s %s)) (>= k (+ %s %s))) (= (select %s k) (select %s k))) :pattern ((select %s k))))",
		so, slen, so, newLen, inner, oldInner, inner)))
}

func mentionsGhostVar(e SExpr, ct *FuncContract) bool {
	if len(ct.Ghosts) == 0 {
		return false
	}
	names := map[string]bool{}
	for _, gv := range ct.Ghosts {
		names[gv.Name] = true
	}
	found := false
	var walk func(e SExpr)
	walk = func(e SExpr) {
		switch x := e.(type) {
		case *SIdent:
			if names[x.Name] {
				found = true
			}
		case *SCall:
			for _, a := range x.Args {
				walk(a)
			}
		case *SBin:
			walk(x.L)
			walk(x.R)
		case *SUn:
			walk(x.X)
		case *SCond:
			walk(x.C)
			walk(x.A)
			walk(x.B)
		case *SQuant:
			walk(x.Body)
		case *SSel:
			walk(x.X)
		case *SIndex:
			walk(x.X)
			walk(x.I)
		case *SSlice:
			walk(x.X)
			if x.Lo != nil {
				walk(x.Lo)
			}
			if x.Hi != nil {
				walk(x.Hi)
			}
		case *SAssert:
			walk(x.X)
		}
	}
	walk(e)
	return found
}

// lockAcquired: state guarded by a mutex is stable only while the mutex is held.
// At every acquisition the guarded fields (and the contents of guarded maps)
// become whatever other goroutines left there: they are havocked, and the
// resulting state is remembered so that contracts can speak about the state
// "at the lock" (atlock(e)) — the pre-state of the critical section.
func (g *fnGen) lockAcquired(st *state, cc *ssa.CallCommon) {
	if len(cc.Args) == 0 {
		return
	}
	fa, ok := cc.Args[0].(*ssa.FieldAddr)
	if !ok {
		return
	}
	structT := deref(fa.X.Type())
	n, ok := structT.(*types.Named)
	if !ok || n.Obj().Pkg() == nil {
		return
	}
	stt := structT.Underlying().(*types.Struct)
	muName := stt.Field(fa.Field).Name()
	owner := g.val(st, fa.X)
	for _, gd := range g.P.cs.Guards {
		if gd.PkgPath != n.Obj().Pkg().Path() || gd.Struct != n.Obj().Name() || gd.Mutex != muName {
			continue
		}
		for _, fname := range gd.Fields {
			for i := 0; i < stt.NumFields(); i++ {
				f := stt.Field(i)
				if f.Name() != fname {
					continue
				}
				if mt, isMap := f.Type().Underlying().(*types.Map); isMap {
					m := g.readField(st, structT, f, owner)
					g.mapArrays(mt, func(name, srt string) {
						g.havocLoc(st, assignLoc{name, m, srt})
					})
				} else if _, isStruct := f.Type().Underlying().(*types.Struct); !isStruct {
					g.havocLoc(st, assignLoc{g.fieldArrayName(structT, f), owner, "(Array Int " + g.R.sortOf(f.Type()) + ")"})
				}
				if _, isStruct := f.Type().Underlying().(*types.Struct); !isStruct {
					// the (possibly new) value of a guarded field is a well-formed value of its type, allocated by now
					g.typeFacts(st, g.readField(st, structT, f, owner), f.Type())
				}
			}
		}
	}
	for _, li := range g.lockInvsFor(n, muName) {
		t, err := g.evalBool(li.E, &evalEnv{g: g, cur: st, old: st, mode: "callee", names: map[string]binding{"self": {owner, types.NewPointer(structT)}}, pkg: n.Obj().Pkg()})
		if err != nil {
			g.stale = append(g.stale, fmt.Sprintf("lockinv %s.%s: %v", li.Struct, li.Mutex, err))
			continue
		}
		g.assume(st, t)
	}
	st.lockSnap = st.clone()
	g.assumptions["state guarded by a mutex is havocked at every acquisition of that mutex (other goroutines may have changed it); atlock(e) names its value at the acquisition"] = true
}

func (g *fnGen) lockInvsFor(n *types.Named, mu string) []*LockInv {
	var out []*LockInv
	for _, li := range g.P.cs.LockInvs {
		if n.Obj().Pkg() != nil && li.PkgPath == n.Obj().Pkg().Path() && li.Struct == n.Obj().Name() && li.Mutex == mu {
			out = append(out, li)
		}
	}
	return out
}

// lockReleased: before a mutex is released its lock invariant must hold again.
func (g *fnGen) lockReleased(st *state, cc *ssa.CallCommon, site string) {
	if len(cc.Args) == 0 {
		return
	}
	fa, ok := cc.Args[0].(*ssa.FieldAddr)
	if !ok {
		return
	}
	structT := deref(fa.X.Type())
	n, ok := structT.(*types.Named)
	if !ok || n.Obj().Pkg() == nil {
		return
	}
	muName := structT.Underlying().(*types.Struct).Field(fa.Field).Name()
	owner := g.val(st, fa.X)
	for i, li := range g.lockInvsFor(n, muName) {
		t, err := g.evalBool(li.E, &evalEnv{g: g, cur: st, old: st, mode: "callee", names: map[string]binding{"self": {owner, types.NewPointer(structT)}}, pkg: n.Obj().Pkg()})
		if err != nil {
			continue
		}
		g.oblige(st, "lockinv", fmt.Sprintf("%s:%s.%s#%d", site, li.Struct, li.Mutex, i+1), cc.Pos(), "", t, "lock invariant holds when the mutex is released: "+li.Src)
	}
}

// matchesCallee: a hook names its call sites by the source text of the callee, or — with a
// leading '~' — by a regular expression over that text (every matching call site).
func (h *Hook) matchesCallee(text string) bool {
	if strings.HasPrefix(h.Callee, "~") {
		re, err := regexp.Compile(h.Callee[1:])
		return err == nil && re.MatchString(text)
	}
	return h.Callee == text
}
