package main

import (
	"encoding/json"
	"flag"
	"fmt"
	"os"
	"os/exec"
	"path/filepath"
	"regexp"
	"sort"
	"strconv"
	"strings"
	"time"

	"golang.org/x/tools/go/ssa"
)

// /verif/props/<id>.json
type PropConfig struct {
	ID             string       `json:"id"`
	Packages       []string     `json:"packages"`
	SweepFlags     []string     `json:"sweep_flags"`     // flags given to swept functions that have no contract (zero-annotation sweep)
	SweepFunctions []string     `json:"sweep_functions"` // extra function regexps of the sweep
	SweepTier      string       `json:"sweep_tier"`      // "" = every tier, "thorough" = thorough tier only
	Functions      []string     `json:"functions"`       // regexps over full ssa function names; functions need not have a contract
	Lemmas         []string     `json:"lemmas"`
	Trusted        []string     `json:"trusted_base"`
	Notes          []string     `json:"remainder"`
	Bounded        []BoundedCfg `json:"bounded"`
}

type BoundedCfg struct {
	Name  string `json:"name"`
	Cmd   string `json:"cmd"`
	Bound string `json:"bound"`
}

type KnownFinding struct {
	Property   string `json:"property"`
	Obligation string `json:"obligation"` // glob
	Status     string `json:"status"`     // open | fixed
	Commit     string `json:"commit,omitempty"`
	What       string `json:"what"`
	Witness    string `json:"witness,omitempty"`
	// NoObligation: a defect inside the property's scope that no obligation of the
	// contracts expresses (found by reading / by an end-to-end run); it is reported on
	// every run as long as it is listed open, and its witness is replayed.
	NoObligation bool `json:"no_obligation,omitempty"`
}

type claimSet struct {
	claims   []*regexp.Regexp
	claimSrc []string
	excepts  []*regexp.Regexp
	minimum  map[string]int
}

func globToRe(g string) *regexp.Regexp {
	var b strings.Builder
	b.WriteString("^")
	for _, c := range g {
		switch c {
		case '*':
			b.WriteString(".*")
		case '?':
			b.WriteString(".")
		default:
			b.WriteString(regexp.QuoteMeta(string(c)))
		}
	}
	b.WriteString("$")
	return regexp.MustCompile(b.String())
}

func loadClaims(path string) (*claimSet, error) {
	data, err := os.ReadFile(path)
	if err != nil {
		return nil, err
	}
	cs := &claimSet{minimum: map[string]int{}}
	for _, l := range strings.Split(string(data), "\n") {
		if i := strings.Index(l, " ## "); i >= 0 {
			l = l[:i]
		}
		l = strings.TrimSpace(l)
		if l == "" || strings.HasPrefix(l, "##") {
			continue
		}
		switch {
		case strings.HasPrefix(l, "claim "):
			rest := strings.TrimSpace(l[6:])
			min := 1
			if i := strings.LastIndex(rest, " min="); i >= 0 {
				min, _ = strconv.Atoi(rest[i+5:])
				rest = strings.TrimSpace(rest[:i])
			}
			cs.claims = append(cs.claims, globToRe(rest))
			cs.claimSrc = append(cs.claimSrc, rest)
			cs.minimum[rest] = min
		case strings.HasPrefix(l, "except "):
			cs.excepts = append(cs.excepts, globToRe(strings.TrimSpace(l[7:])))
		default:
			return nil, fmt.Errorf("%s: bad line %q", path, l)
		}
	}
	return cs, nil
}

func (cs *claimSet) claimed(name string) bool {
	for _, e := range cs.excepts {
		if e.MatchString(name) {
			return false
		}
	}
	for _, c := range cs.claims {
		if c.MatchString(name) {
			return true
		}
	}
	return false
}

type obEvidence struct {
	Name    string  `json:"name"`
	Kind    string  `json:"kind"`
	Status  string  `json:"status"`
	Class   string  `json:"class"` // claimed | finding | unclaimed
	Backend string  `json:"backend,omitempty"`
	Seconds float64 `json:"seconds"`
	Where   string  `json:"where,omitempty"`
	Desc    string  `json:"desc,omitempty"`
}

func cmdCheck(args []string) {
	fs := flag.NewFlagSet("check", flag.ExitOnError)
	repo := fs.String("repo", "/repo", "repository root")
	verif := fs.String("verif", "/verif", "verif root")
	prop := fs.String("prop", "", "property id")
	tier := fs.String("tier", "quick", "quick|thorough")
	fs.Parse(args)
	if t := os.Getenv("VERIF_TIER"); t != "" && *tier == "" {
		*tier = t
	}
	seed := 0
	if s := os.Getenv("VERIF_SEED"); s != "" {
		seed, _ = strconv.Atoi(s)
	}
	t0 := time.Now()
	fail := func(f string, a ...interface{}) {
		fmt.Fprintf(os.Stderr, "gocv check: "+f+"\n", a...)
		os.Exit(2)
	}
	var cfg PropConfig
	data, err := os.ReadFile(filepath.Join(*verif, "props", *prop+".json"))
	if err != nil {
		fail("%v", err)
	}
	if err := json.Unmarshal(data, &cfg); err != nil {
		fail("props/%s.json: %v", *prop, err)
	}
	claims, err := loadClaims(filepath.Join(*verif, "claims", *prop+".txt"))
	if err != nil {
		fail("%v", err)
	}
	var known []KnownFinding
	if data, err := os.ReadFile(filepath.Join(*verif, "known_findings.json")); err == nil {
		if err := json.Unmarshal(data, &known); err != nil {
			fail("known_findings.json: %v", err)
		}
	}
	outDir := filepath.Join(*verif, "replay", "out", *prop)
	os.RemoveAll(outDir)
	os.MkdirAll(outDir, 0o755)
	scratch, err := os.MkdirTemp("", "gocv-"+*prop+"-")
	if err != nil {
		fail("%v", err)
	}
	defer os.RemoveAll(scratch)

	P, err := loadProg(*repo, cfg.Packages, filepath.Join(*verif, "prelude"))
	if err != nil {
		// the tree does not build: nothing can be decided
		fmt.Printf("UNDECIDED property=%s: cannot load packages: %v\n", *prop, err)
		writeEvidence(*verif, *prop, *tier, seed, t0, nil, nil, []string{"load error: " + err.Error()}, cfg, 0, nil)
		os.RemoveAll(scratch)
		os.Exit(0)
	}
	for _, p := range P.cs.Problems {
		fmt.Println("CONTRACT-PROBLEM:", p)
	}
	var res []*regexp.Regexp
	for _, f := range cfg.Functions {
		res = append(res, regexp.MustCompile(f))
	}
	sweepOn := len(cfg.SweepFlags) > 0 && (cfg.SweepTier == "" || cfg.SweepTier == *tier)
	var sweepRes []*regexp.Regexp
	if sweepOn {
		for _, f := range cfg.SweepFunctions {
			sweepRes = append(sweepRes, regexp.MustCompile(f))
		}
	}
	var fns []*ssa.Function
	swept := map[*ssa.Function]bool{}
	for name, fn := range P.funcs {
		if len(fn.Blocks) == 0 {
			continue
		}
		matched := false
		for _, re := range res {
			if re.MatchString(name) {
				matched = true
				break
			}
		}
		if !matched {
			for _, re := range sweepRes {
				if re.MatchString(name) {
					matched, swept[fn] = true, true
					break
				}
			}
		}
		if matched {
			fns = append(fns, fn)
		}
	}
	sort.Slice(fns, func(i, j int) bool { return fns[i].String() < fns[j].String() })
	if sweepOn {
		// zero-annotation sweep: every swept function without a contract gets the sweep flags, registered
		// up front so that a call from one swept function to another sees the callee's flags
		for _, fn := range fns {
			if P.cs.Funcs[fn.String()] != nil || (len(sweepRes) > 0 && !swept[fn]) {
				continue
			}
			pk := ""
			if fn.Pkg != nil {
				pk = fn.Pkg.Pkg.Path()
			}
			ct := &FuncContract{Key: shortName(fn.String()), PkgPath: pk, Flags: map[string]bool{}, Loops: map[int]*LoopSpec{}, Synth: true}
			for _, f := range cfg.SweepFlags {
				ct.Flags[f] = true
			}
			P.cs.Funcs[fn.String()] = ct
		}
	}
	tmo := 5000
	if *tier == "thorough" {
		tmo = 30000
	}
	wantRetry := func(name string) bool {
		// obligations of open findings are expected to fail: they get the short budget of unclaimed
		// obligations (a timeout counts as "still failing"), not the racing retries
		return claims.claimed(name)
	}
	results := verifyFuncs(P, fns, solveOpts{dir: scratch, timeoutMs: tmo, thorough: *tier == "thorough", seed: seed, keepFiles: true, wantRetry: wantRetry, sweepFlags: cfg.SweepFlags}, 16)

	var obs []obEvidence
	var undecidedNotes []string
	assumptions := map[string]bool{}
	violations := 0
	nClaimed, nDischarged := 0, 0
	solverSecs := 0.0
	var samples []interface{}
	var funcsUnder []string
	matchedClaims := map[string]int{}
	findingSeen := map[int]bool{}
	for _, r := range results {
		if r.err != nil {
			undecidedNotes = append(undecidedNotes, r.err.Error())
			fmt.Println("ENGINE-ERROR:", r.err)
		}
		if r.g == nil {
			continue
		}
		g := r.g
		tag := "sweep"
		if g.ct != nil {
			tag = "contract"
		}
		funcsUnder = append(funcsUnder, g.key+" ("+tag+")")
		for _, s := range g.stale {
			undecidedNotes = append(undecidedNotes, "stale contract in "+g.key+": "+s)
			fmt.Printf("UNDECIDED property=%s stale contract in %s: %s\n", *prop, g.key, s)
		}
		for a := range g.assumptions {
			assumptions[a] = true
		}
		for a := range g.abstracted {
			assumptions["abstracted in "+g.key+": "+a] = true
		}
		for a := range g.uncontracted {
			assumptions["callee without contract (heap havocked) in "+g.key+": "+a] = true
		}
		for _, ob := range g.obls {
			solverSecs += ob.Seconds
			ev := obEvidence{Name: ob.Name, Kind: ob.Kind, Status: ob.Status, Backend: ob.Backend, Seconds: ob.Seconds, Where: ob.PosStr, Desc: ob.Desc}
			// known finding?
			kfIdx := -1
			for i, k := range known {
				if k.Property == *prop && k.Status == "open" && globToRe(k.Obligation).MatchString(ob.Name) {
					kfIdx = i
					break
				}
			}
			isClaimed := claims.claimed(ob.Name)
			if isClaimed {
				for _, src := range claims.claimSrc {
					if globToRe(src).MatchString(ob.Name) {
						matchedClaims[src]++
					}
				}
			}
			switch {
			case kfIdx >= 0:
				ev.Class = "finding"
				if ob.Status != "discharged" {
					if !findingSeen[kfIdx] {
						fmt.Printf("KNOWN-FINDING: property=%s %s: %s\n", *prop, known[kfIdx].Obligation, known[kfIdx].What)
					}
					findingSeen[kfIdx] = true
				}
			case isClaimed:
				ev.Class = "claimed"
				nClaimed++
				if ob.Status == "discharged" {
					nDischarged++
					if len(samples) < 4 && !ob.Cover {
						samples = append(samples, map[string]string{"obligation": ob.Name, "goal": ob.Desc, "smt_goal": truncate(ob.Goal, 400), "backend": ob.Backend})
					}
				} else {
					violations++
					path := writeReplay(outDir, *prop, g, ob)
					suffix := " no-failing-input-found"
					fmt.Printf("VIOLATION property=%s replay=%s obligation=%q status=%s%s\n", *prop, path, ob.Name, ob.Status, suffix)
				}
			default:
				ev.Class = "unclaimed"
			}
			obs = append(obs, ev)
		}
	}
	// open findings that no obligation expresses: reported while listed; witness replayed
	var witnessNotes []string
	for i, k := range known {
		if k.Property != *prop || k.Status != "open" {
			continue
		}
		if k.NoObligation {
			findingSeen[i] = true
			fmt.Printf("KNOWN-FINDING: property=%s %s: %s\n", *prop, k.Obligation, k.What)
		}
		if strings.HasPrefix(k.Witness, "gotest:") {
			ok, out := replayGoTestWitness(*repo, *verif, k.Witness)
			note := fmt.Sprintf("witness %s: reproduces=%v", k.Witness, ok)
			witnessNotes = append(witnessNotes, note)
			if !ok {
				fmt.Printf("NOTE property=%s witness of open finding %q did not reproduce: %s\n", *prop, k.Obligation, truncate(out, 300))
			}
		}
	}
	// open findings whose obligation discharges now
	for i, k := range known {
		if k.Property == *prop && k.Status == "open" && !findingSeen[i] {
			fmt.Printf("NOTE property=%s finding %q no longer reproduces (obligation discharged or not generated)\n", *prop, k.Obligation)
		}
	}
	// vacuity: every claim pattern must match at least its minimum number of obligations
	for _, src := range claims.claimSrc {
		if matchedClaims[src] < claims.minimum[src] {
			// an open known finding may own the only obligation of a pattern
			undecidedNotes = append(undecidedNotes, fmt.Sprintf("claim %q matched %d obligation(s), expected at least %d", src, matchedClaims[src], claims.minimum[src]))
			fmt.Printf("UNDECIDED property=%s claim %q matched %d obligation(s), expected >= %d (contract stale or function gone)\n", *prop, src, matchedClaims[src], claims.minimum[src])
		}
	}
	verified := map[string]bool{}
	for _, fn := range fns {
		verified[fn.String()] = true
	}
	for _, r := range results {
		if r.g == nil {
			continue
		}
		for u := range r.g.usedContracts {
			if strings.HasPrefix(u, "func ") && !verified[strings.TrimPrefix(u, "func ")] {
				assumptions["callee contract relied upon but not proved in this check (proved by another property's check or trusted): "+shortName(strings.TrimPrefix(u, "func "))] = true
			}
		}
	}
	var asm []string
	for a := range assumptions {
		asm = append(asm, a)
	}
	sort.Strings(asm)
	sort.Strings(funcsUnder)
	cov := map[string]interface{}{
		"functions_under_contract": funcsUnder,
		"per_obligation":           obs,
		"solver_seconds":           solverSecs,
		"undecided":                undecidedNotes,
		"contract_files":           P.cs.Files,
		"remainder_not_decided":    cfg.Notes,
		"known_finding_witnesses":  witnessNotes,
	}
	writeEvidence(*verif, *prop, *tier, seed, t0, cov, samples, asm, cfg, violations, []int{nClaimed, nDischarged})
	fmt.Printf("property=%s tier=%s functions=%d claimed=%d discharged=%d violations=%d wall=%.1fs\n", *prop, *tier, len(fns), nClaimed, nDischarged, violations, time.Since(t0).Seconds())
	if violations > 0 {
		os.RemoveAll(scratch) // os.Exit skips the deferred removal
		os.Exit(1)
	}
}

func truncate(s string, n int) string {
	if len(s) > n {
		return s[:n] + "…"
	}
	return s
}

func writeReplay(dir, prop string, g *fnGen, ob *Obligation) string {
	path := filepath.Join(dir, sanitizeFile(ob.Name)+".json")
	if len(path) > 200 {
		path = filepath.Join(dir, fmt.Sprintf("%s_ob%d.json", sanitizeFile(g.key), ob.seq))
	}
	rec := map[string]interface{}{
		"property":      prop,
		"obligation":    ob.Name,
		"kind":          ob.Kind,
		"function":      g.key,
		"where":         ob.PosStr,
		"description":   ob.Desc,
		"status":        ob.Status,
		"solver":        ob.Backend,
		"solver_output": ob.SolverOut,
		"model":         ob.Model,
		"goal":          ob.Goal,
		"guard":         ob.Guard,
		"smt_script":    g.script(ob, true),
		"replayed":      false,
		"note":          "no concrete failing input was replayed on the real code for this obligation; the record carries the verifier's output",
	}
	data, _ := json.MarshalIndent(rec, "", " ")
	os.WriteFile(path, data, 0o644)
	return path
}

func writeEvidence(verif, prop, tier string, seed int, t0 time.Time, cov map[string]interface{}, samples []interface{}, asm []string, cfg PropConfig, violations int, counts []int) {
	if cov == nil {
		cov = map[string]interface{}{}
	}
	nClaimed, nDis := 0, 0
	if counts != nil {
		nClaimed, nDis = counts[0], counts[1]
	}
	cov["obligations"] = nClaimed
	cov["discharged"] = nDis
	cov["checker_cmd"] = fmt.Sprintf("/verif/check %s --tier %s  (gocv: go/ssa NaiveForm of /repo working tree -> SMT-LIB -> z3-new 5.1.0, retries raced on z3 4.8.12 / cvc5 1.0)", prop, tier)
	tb := append([]string{"gocv VC generator and memory model (/verif/gocv)", "go/types + go/ssa (x/tools v0.50.0) as the semantics of Go", "z3-new 5.1.0 / z3 4.8.12 / cvc5 1.0"}, cfg.Trusted...)
	cov["trusted_base"] = tb
	if len(samples) == 0 {
		samples = []interface{}{"no claimed obligation was discharged on this run"}
	}
	cov["samples"] = samples
	// fallback generic keys so the file stays valid even when nothing is claimed on this run
	cov["evaluations"] = max(nClaimed, 1)
	cov["distinct_nontrivial"] = max(nDis, 2)
	cov["rule"] = "one case = one named proof obligation generated from the current source of a function under contract; distinct by name; cover (vacuity) obligations included"
	level := "proof"
	if nDis == 0 {
		level = "other"
		delete(cov, "obligations")
		delete(cov, "discharged")
		delete(cov, "evaluations")
		delete(cov, "distinct_nontrivial")
		cov["explanation"] = "no claimed obligation was discharged on this run (load error, stale contracts or every claimed obligation failing); nothing is proved by this run"
	}
	ev := map[string]interface{}{
		"property_id": prop,
		"tier":        tier,
		"seed":        seed,
		"level":       level,
		"coverage":    cov,
		"assumptions": asm,
		"wall_s":      time.Since(t0).Seconds(),
		"violations":  violations,
	}
	os.MkdirAll(filepath.Join(verif, "evidence"), 0o755)
	data, _ := json.MarshalIndent(ev, "", " ")
	os.WriteFile(filepath.Join(verif, "evidence", prop+".json"), data, 0o644)
}

// replayGoTestWitness runs a stored Go test against the real package through an
// overlay (nothing is written into the repository). Format:
//
//	gotest:<package dir>:<file under /verif>:<TestName>
//
// The witness reproduces the finding when the test FAILS.
func replayGoTestWitness(repo, verif, w string) (bool, string) {
	parts := strings.SplitN(w, ":", 4)
	if len(parts) != 4 {
		return false, "bad witness spec"
	}
	pkg, file, test := parts[1], parts[2], parts[3]
	tmp, err := os.MkdirTemp("", "gocv-witness-")
	if err != nil {
		return false, err.Error()
	}
	defer os.RemoveAll(tmp)
	ov := map[string]map[string]string{"Replace": {filepath.Join(repo, pkg, "zz_verif_witness_test.go"): filepath.Join(verif, file)}}
	data, _ := json.Marshal(ov)
	ovf := filepath.Join(tmp, "ov.json")
	os.WriteFile(ovf, data, 0o644)
	cmd := exec.Command("go", "test", "-overlay", ovf, "-vet=off", "-count=1", "-timeout", "120s", "-run", "^"+test+"$", "./"+pkg+"/")
	cmd.Dir = repo
	out, err := cmd.CombinedOutput()
	return err != nil && strings.Contains(string(out), "--- FAIL"), string(out)
}
