package main

import (
	"bytes"
	"fmt"
	"go/ast"
	"go/printer"
	"go/token"
	"go/types"
	"os"
	"path/filepath"
	"sort"
	"strings"

	"golang.org/x/tools/go/packages"
	"golang.org/x/tools/go/ssa"
	"golang.org/x/tools/go/ssa/ssautil"
)

const modulePath = "github.com/php-any/origami"

type Prog struct {
	pkgs      []*packages.Package
	all       map[string]*packages.Package
	prog      *ssa.Program
	cs        *Contracts
	sizes     types.Sizes
	repo      string
	funcs     map[string]*ssa.Function // ssa full name -> function (incl. anonymous)
	loadErrs  []string
	immutable map[*ssa.Global]string // globals never written outside init: "" | "errnew"
}

func loadProg(repo string, patterns []string, preludeDir string) (*Prog, error) {
	cfg := &packages.Config{Mode: packages.LoadAllSyntax, Dir: repo, BuildFlags: []string{"-tags=verif"}}
	pkgs, err := packages.Load(cfg, patterns...)
	if err != nil {
		return nil, err
	}
	repoRoot = repo
	P := &Prog{pkgs: pkgs, all: map[string]*packages.Package{}, repo: repo, funcs: map[string]*ssa.Function{}}
	packages.Visit(pkgs, nil, func(p *packages.Package) {
		P.all[p.PkgPath] = p
		if strings.HasPrefix(p.PkgPath, modulePath) {
			for _, e := range p.Errors {
				P.loadErrs = append(P.loadErrs, e.Error())
			}
		}
	})
	if len(P.loadErrs) > 0 {
		return P, fmt.Errorf("package errors: %s", strings.Join(P.loadErrs, "; "))
	}
	prog, _ := ssautil.AllPackages(pkgs, ssa.NaiveForm|ssa.GlobalDebug|ssa.InstantiateGenerics)
	prog.Build()
	P.prog = prog
	P.sizes = types.SizesFor("gc", "amd64")
	for _, p := range pkgs {
		sp := prog.Package(p.Types)
		if sp == nil {
			continue
		}
		for _, m := range sp.Members {
			switch x := m.(type) {
			case *ssa.Function:
				P.addFunc(x)
			case *ssa.Type:
				for _, t := range []types.Type{x.Type(), types.NewPointer(x.Type())} {
					ms := prog.MethodSets.MethodSet(t)
					for i := 0; i < ms.Len(); i++ {
						if f := prog.MethodValue(ms.At(i)); f != nil && f.Pkg == sp {
							P.addFunc(f)
						}
					}
				}
			}
		}
	}
	// instantiations of generic functions (built on demand by InstantiateGenerics): reachable through call sites
	for changed := true; changed; {
		changed = false
		for _, fn := range P.funcs {
			for _, b := range fn.Blocks {
				for _, ins := range b.Instrs {
					c, ok := ins.(ssa.CallInstruction)
					if !ok {
						continue
					}
					callee := c.Common().StaticCallee()
					if callee == nil || callee.Origin() == nil || len(callee.Blocks) == 0 {
						continue
					}
					if _, seen := P.funcs[callee.String()]; !seen && callee.Pkg == nil {
						// instances have no package of their own; attribute them to the origin's
						if o := callee.Origin(); o.Pkg != nil && strings.HasPrefix(o.Pkg.Pkg.Path(), modulePath) {
							P.funcs[callee.String()] = callee
							changed = true
						}
					}
				}
			}
		}
	}
	P.findImmutableGlobals()
	// contracts
	P.cs = newContracts()
	if preludeDir != "" {
		files, _ := filepath.Glob(filepath.Join(preludeDir, "*.spec"))
		sort.Strings(files)
		for _, f := range files {
			if err := P.cs.parseContractFile(f, ""); err != nil {
				return P, err
			}
		}
	}
	var paths []string
	for path := range P.all {
		if strings.HasPrefix(path, modulePath) {
			paths = append(paths, path)
		}
	}
	sort.Strings(paths)
	for _, path := range paths {
		p := P.all[path]
		dir := ""
		if len(p.GoFiles) > 0 {
			dir = filepath.Dir(p.GoFiles[0])
		} else {
			continue
		}
		cf := filepath.Join(dir, "contracts_verif.go")
		if _, err := os.Stat(cf); err == nil {
			if err := P.cs.parseContractFile(cf, path); err != nil {
				return P, err
			}
		}
	}
	return P, nil
}

func (P *Prog) addFunc(f *ssa.Function) {
	if f == nil || f.Synthetic != "" {
		return
	}
	if _, ok := P.funcs[f.String()]; ok {
		return
	}
	P.funcs[f.String()] = f
	for _, an := range f.AnonFuncs {
		P.addFunc(an)
	}
}

func (P *Prog) typesPkg(path string) *types.Package {
	if p, ok := P.all[path]; ok {
		return p.Types
	}
	return nil
}

func (P *Prog) nodeText(fset *token.FileSet, n ast.Node) string {
	var buf bytes.Buffer
	printer.Fprint(&buf, fset, n)
	s := buf.String()
	s = strings.Join(strings.Fields(s), " ")
	if len(s) > 80 {
		s = s[:77] + "..."
	}
	return s
}

func (P *Prog) implements(t types.Type, it *types.Interface) bool {
	return types.Implements(t, it)
}

// resolveType parses a type written in a contract.
func (P *Prog) resolveType(text string, pkg *types.Package, imports map[string]string) (types.Type, error) {
	text = strings.TrimSpace(text)
	switch {
	case text == "":
		return nil, fmt.Errorf("empty type")
	case strings.HasPrefix(text, "*"):
		t, err := P.resolveType(text[1:], pkg, imports)
		if err != nil {
			return nil, err
		}
		return types.NewPointer(t), nil
	case strings.HasPrefix(text, "[]"):
		t, err := P.resolveType(text[2:], pkg, imports)
		if err != nil {
			return nil, err
		}
		return types.NewSlice(t), nil
	case strings.HasPrefix(text, "map[") || strings.HasPrefix(text, "mathmap["):
		open := strings.Index(text, "[")
		depth := 0
		for i := open; i < len(text); i++ {
			switch text[i] {
			case '[':
				depth++
			case ']':
				depth--
				if depth == 0 {
					k, err := P.resolveType(text[open+1:i], pkg, imports)
					if err != nil {
						return nil, err
					}
					v, err := P.resolveType(text[i+1:], pkg, imports)
					if err != nil {
						return nil, err
					}
					if strings.HasPrefix(text, "mathmap") {
						return &MathMap{k, v}, nil
					}
					return types.NewMap(k, v), nil
				}
			}
		}
		return nil, fmt.Errorf("bad map type %q", text)
	case strings.HasPrefix(text, "chan "):
		t, err := P.resolveType(text[5:], pkg, imports)
		if err != nil {
			return nil, err
		}
		return types.NewChan(types.SendRecv, t), nil
	case text == "interface{}" || text == "any":
		return types.NewInterfaceType(nil, nil), nil
	case text == "ref":
		return types.Typ[types.UnsafePointer], nil
	}
	if i := strings.LastIndex(text, "."); i >= 0 {
		qual, name := text[:i], text[i+1:]
		var tp *types.Package
		if imports != nil {
			if p, ok := imports[qual]; ok {
				tp = P.typesPkg(p)
			}
		}
		if tp == nil {
			tp = P.typesPkg(qual)
		}
		if tp == nil {
			tp = P.typesPkg(modulePath + "/" + qual)
		}
		if tp == nil && pkg != nil {
			for _, ip := range pkg.Imports() {
				if ip.Name() == qual {
					tp = ip
					break
				}
			}
		}
		if tp == nil {
			return nil, fmt.Errorf("unknown package %q in type %q", qual, text)
		}
		obj := tp.Scope().Lookup(name)
		if tn, ok := obj.(*types.TypeName); ok {
			return tn.Type(), nil
		}
		return nil, fmt.Errorf("%s is not a type", text)
	}
	if pkg != nil {
		if tn, ok := pkg.Scope().Lookup(text).(*types.TypeName); ok {
			return tn.Type(), nil
		}
	}
	if tn, ok := types.Universe.Lookup(text).(*types.TypeName); ok {
		return tn.Type(), nil
	}
	return nil, fmt.Errorf("unknown type %q", text)
}

func (P *Prog) newGen(fn *ssa.Function, ct *FuncContract) *fnGen {
	g := &fnGen{P: P, fn: fn, ct: ct, key: shortName(fn.String()), R: newSortReg(),
		vals: map[ssa.Value]string{}, heapSorts: map[string]string{}, abstracted: map[string]bool{}, assumptions: map[string]bool{},
		prov: map[ssa.Value]*guardProv{}, regProv: map[*ssa.Alloc]*guardProv{}, callOrd: map[string]int{}, usedContracts: map[string]bool{},
		tuples: map[ssa.Value][]string{}, deferArgs: map[*ssa.Defer]*callArgs{}, uncontracted: map[string]bool{}, callPosOrd: map[token.Pos]int{}, mapOrderSeen: map[*ssa.Range]bool{}}
	return g
}

// findImmutableGlobals: a package-level variable of a module package that is
// stored to only inside the package initialiser (and whose address is never
// taken elsewhere) is a constant after initialisation. Those initialised by
// errors.New / fmt.Errorf are in addition non-nil and pairwise distinct.
func (P *Prog) findImmutableGlobals() {
	P.immutable = map[*ssa.Global]string{}
	mutable := map[*ssa.Global]bool{}
	initKind := map[*ssa.Global]string{}
	var visit func(fn *ssa.Function, isInit bool)
	visit = func(fn *ssa.Function, isInit bool) {
		for _, b := range fn.Blocks {
			for _, ins := range b.Instrs {
				// any use of the global's address other than a load or an init-time store makes it mutable
				for _, op := range ins.Operands(nil) {
					gl, ok := (*op).(*ssa.Global)
					if !ok {
						continue
					}
					switch x := ins.(type) {
					case *ssa.UnOp:
						continue // load
					case *ssa.Store:
						if x.Addr == gl && isInit {
							if call, ok := x.Val.(*ssa.Call); ok {
								if f := call.Common().StaticCallee(); f != nil && (f.String() == "errors.New" || f.String() == "fmt.Errorf") {
									initKind[gl] = "errnew"
								}
							}
							continue
						}
					case *ssa.DebugRef:
						continue
					}
					mutable[gl] = true
				}
			}
		}
		for _, an := range fn.AnonFuncs {
			visit(an, false)
		}
	}
	for _, p := range P.prog.AllPackages() {
		if !strings.HasPrefix(p.Pkg.Path(), modulePath) {
			continue
		}
		for _, m := range p.Members {
			switch x := m.(type) {
			case *ssa.Function:
				visit(x, x.Name() == "init" || strings.HasPrefix(x.Name(), "init#"))
			case *ssa.Type:
				for _, t := range []types.Type{x.Type(), types.NewPointer(x.Type())} {
					ms := P.prog.MethodSets.MethodSet(t)
					for i := 0; i < ms.Len(); i++ {
						if f := P.prog.MethodValue(ms.At(i)); f != nil && f.Pkg == p && f.Synthetic == "" {
							visit(f, false)
						}
					}
				}
			}
		}
	}
	for _, p := range P.prog.AllPackages() {
		if !strings.HasPrefix(p.Pkg.Path(), modulePath) {
			continue
		}
		for _, m := range p.Members {
			if gl, ok := m.(*ssa.Global); ok && !mutable[gl] {
				P.immutable[gl] = initKind[gl]
			}
		}
	}
}
