package main

// Spec-expression language: Go-like expressions extended with
//   ==>  <==>  old(e)  forall x T :: e   exists x T :: e   typeof(e) == T   e.(T)
// Parsed with a small hand-written Pratt parser; typed later (speceval.go).

import (
	"fmt"
	"strings"
	"unicode"
)

type tokKind int

const (
	tEOF tokKind = iota
	tIdent
	tInt
	tFloat
	tString
	tChar
	tOp
)

type tok struct {
	kind tokKind
	s    string
	pos  int
}

var specOps = []string{
	"<==>", "==>", "::", "&&", "||", "==", "!=", "<=", ">=", "<<", ">>", "&^", "++",
	"+", "-", "*", "/", "%", "<", ">", "!", "(", ")", "[", "]", ",", ".", ":", "&", "|", "^", "?", "{", "}", "=",
}

func lexSpec(src string) ([]tok, error) {
	var out []tok
	i := 0
	for i < len(src) {
		c := src[i]
		if c == ' ' || c == '\t' || c == '\n' || c == '\r' {
			i++
			continue
		}
		if c == '/' && i+1 < len(src) && src[i+1] == '/' {
			break // trailing comment
		}
		if c == '_' || unicode.IsLetter(rune(c)) || c == '$' {
			j := i + 1
			for j < len(src) && (src[j] == '_' || src[j] == '$' || src[j] == '#' && false || unicode.IsLetter(rune(src[j])) || unicode.IsDigit(rune(src[j]))) {
				j++
			}
			out = append(out, tok{tIdent, src[i:j], i})
			i = j
			continue
		}
		if unicode.IsDigit(rune(c)) {
			j := i + 1
			isF := false
			if c == '0' && j < len(src) && (src[j] == 'x' || src[j] == 'X') {
				j++
				for j < len(src) && strings.ContainsRune("0123456789abcdefABCDEF_", rune(src[j])) {
					j++
				}
			} else {
				for j < len(src) && (unicode.IsDigit(rune(src[j])) || src[j] == '_') {
					j++
				}
				if j+1 < len(src) && src[j] == '.' && unicode.IsDigit(rune(src[j+1])) {
					isF = true
					j++
					for j < len(src) && unicode.IsDigit(rune(src[j])) {
						j++
					}
				}
			}
			k := tInt
			if isF {
				k = tFloat
			}
			out = append(out, tok{k, strings.ReplaceAll(src[i:j], "_", ""), i})
			i = j
			continue
		}
		if c == '"' {
			j := i + 1
			for j < len(src) && src[j] != '"' {
				if src[j] == '\\' {
					j++
				}
				j++
			}
			if j >= len(src) {
				return nil, fmt.Errorf("unterminated string at %d", i)
			}
			out = append(out, tok{tString, src[i : j+1], i})
			i = j + 1
			continue
		}
		if c == '\'' {
			j := i + 1
			for j < len(src) && src[j] != '\'' {
				if src[j] == '\\' {
					j++
				}
				j++
			}
			if j >= len(src) {
				return nil, fmt.Errorf("unterminated char at %d", i)
			}
			out = append(out, tok{tChar, src[i : j+1], i})
			i = j + 1
			continue
		}
		matched := false
		for _, op := range specOps {
			if strings.HasPrefix(src[i:], op) {
				out = append(out, tok{tOp, op, i})
				i += len(op)
				matched = true
				break
			}
		}
		if !matched {
			return nil, fmt.Errorf("unexpected character %q at %d in %q", c, i, src)
		}
	}
	out = append(out, tok{tEOF, "", len(src)})
	return out, nil
}

// Spec AST
type SExpr interface{ String() string }

type (
	SIdent struct{ Name string }
	SLit   struct {
		Kind tokKind
		Val  string
	}
	SBin struct {
		Op   string
		L, R SExpr
	}
	SUn struct {
		Op string
		X  SExpr
	}
	SCall struct {
		Fun  SExpr
		Args []SExpr
	}
	SSel struct {
		X   SExpr
		Sel string
	}
	SIndex struct{ X, I SExpr }
	SSlice struct{ X, Lo, Hi SExpr }
	SQuant struct {
		Forall bool
		Vars   []SVar
		Body   SExpr
	}
	SAssert struct { // e.(T)
		X SExpr
		T *STypeExpr
	}
	SCond     struct{ C, A, B SExpr }
	STypeExpr struct{ Text string } // a Go type expression, kept as text and resolved later
)

type SVar struct {
	Name string
	T    *STypeExpr
}

func (e *SIdent) String() string { return e.Name }
func (e *SLit) String() string   { return e.Val }
func (e *SBin) String() string   { return "(" + e.L.String() + " " + e.Op + " " + e.R.String() + ")" }
func (e *SUn) String() string    { return e.Op + e.X.String() }
func (e *SCall) String() string {
	var a []string
	for _, x := range e.Args {
		a = append(a, x.String())
	}
	return e.Fun.String() + "(" + strings.Join(a, ", ") + ")"
}
func (e *SSel) String() string   { return e.X.String() + "." + e.Sel }
func (e *SIndex) String() string { return e.X.String() + "[" + e.I.String() + "]" }
func (e *SSlice) String() string {
	lo, hi := "", ""
	if e.Lo != nil {
		lo = e.Lo.String()
	}
	if e.Hi != nil {
		hi = e.Hi.String()
	}
	return e.X.String() + "[" + lo + ":" + hi + "]"
}
func (e *SQuant) String() string {
	q := "exists"
	if e.Forall {
		q = "forall"
	}
	var vs []string
	for _, v := range e.Vars {
		vs = append(vs, v.Name+" "+v.T.Text)
	}
	return "(" + q + " " + strings.Join(vs, ", ") + " :: " + e.Body.String() + ")"
}
func (e *SAssert) String() string { return e.X.String() + ".(" + e.T.Text + ")" }
func (e *SCond) String() string {
	return "(" + e.C.String() + " ? " + e.A.String() + " : " + e.B.String() + ")"
}
func (e *STypeExpr) String() string { return e.Text }

type specParser struct {
	toks []tok
	p    int
	src  string
}

func parseSpec(src string) (e SExpr, err error) {
	toks, err := lexSpec(src)
	if err != nil {
		return nil, err
	}
	sp := &specParser{toks: toks, src: src}
	defer func() {
		if r := recover(); r != nil {
			if pe, ok := r.(parseErr); ok {
				err = fmt.Errorf("%s (in %q)", string(pe), src)
				return
			}
			panic(r)
		}
	}()
	e = sp.expr(0)
	if sp.cur().kind != tEOF {
		sp.fail("unexpected %q", sp.cur().s)
	}
	return e, nil
}

type parseErr string

func (sp *specParser) fail(f string, a ...interface{}) {
	panic(parseErr(fmt.Sprintf(f, a...)))
}
func (sp *specParser) cur() tok { return sp.toks[sp.p] }
func (sp *specParser) next() tok {
	t := sp.toks[sp.p]
	if sp.p < len(sp.toks)-1 {
		sp.p++
	}
	return t
}
func (sp *specParser) isOp(s string) bool { t := sp.cur(); return t.kind == tOp && t.s == s }
func (sp *specParser) expect(s string) {
	if !sp.isOp(s) {
		sp.fail("expected %q, got %q", s, sp.cur().s)
	}
	sp.next()
}

var binPrec = map[string]int{
	"<==>": 1, "==>": 2, "?": 3, "||": 4, "&&": 5,
	"==": 6, "!=": 6, "<": 6, "<=": 6, ">": 6, ">=": 6,
	"+": 7, "-": 7, "|": 7, "^": 7, "++": 7,
	"*": 8, "/": 8, "%": 8, "<<": 8, ">>": 8, "&": 8, "&^": 8,
}

func (sp *specParser) expr(minPrec int) SExpr {
	lhs := sp.unary()
	for {
		t := sp.cur()
		if t.kind != tOp {
			return lhs
		}
		prec, ok := binPrec[t.s]
		if !ok || prec < minPrec {
			return lhs
		}
		sp.next()
		switch t.s {
		case "==>": // right assoc
			rhs := sp.expr(prec)
			lhs = &SBin{"==>", lhs, rhs}
		case "?":
			a := sp.expr(prec + 1)
			sp.expect(":")
			b := sp.expr(prec)
			lhs = &SCond{lhs, a, b}
		default:
			rhs := sp.expr(prec + 1)
			lhs = &SBin{t.s, lhs, rhs}
		}
	}
}

func (sp *specParser) unary() SExpr {
	t := sp.cur()
	if t.kind == tOp && (t.s == "!" || t.s == "-" || t.s == "^") {
		sp.next()
		return &SUn{t.s, sp.unary()}
	}
	if t.kind == tIdent && (t.s == "forall" || t.s == "exists") {
		sp.next()
		var vars []SVar
		for {
			var names []string
			n := sp.next()
			if n.kind != tIdent {
				sp.fail("quantifier: expected variable name")
			}
			names = append(names, n.s)
			for sp.isOp(",") {
				// could be "i, j int" or "i int, j int": look ahead handled by type parse
				sp.next()
				n2 := sp.next()
				if n2.kind != tIdent {
					sp.fail("quantifier: expected variable name")
				}
				names = append(names, n2.s)
			}
			ty := sp.typeExpr()
			for _, nm := range names {
				vars = append(vars, SVar{nm, ty})
			}
			if sp.isOp("::") {
				break
			}
			if sp.isOp(",") { // another group with its own type: forall vm VM, i Iface, k int :: ...
				sp.next()
				continue
			}
			sp.fail("quantifier: expected '::'")
		}
		sp.expect("::")
		body := sp.expr(0)
		return &SQuant{t.s == "forall", vars, body}
	}
	return sp.postfix(sp.primary())
}

// typeExpr parses a Go type expression textually: sequence of * [] map[...] ident . ident
func (sp *specParser) typeExpr() *STypeExpr {
	start := sp.cur().pos
	depth := 0
	for {
		t := sp.cur()
		switch {
		case t.kind == tOp && (t.s == "*"):
			sp.next()
		case t.kind == tOp && t.s == "[":
			depth++
			sp.next()
		case t.kind == tOp && t.s == "]":
			depth--
			sp.next()
		case t.kind == tIdent || t.kind == tInt && depth > 0:
			sp.next()
			if sp.isOp(".") {
				sp.next()
				continue
			}
			if t.s == "map" || t.s == "chan" {
				continue
			}
			if depth == 0 {
				if t.s == "interface" && sp.isOp("{") {
					sp.next()
					sp.expect("}")
				}
				end := sp.cur().pos
				return &STypeExpr{strings.TrimSpace(sp.src[start:end])}
			}
		default:
			sp.fail("bad type expression near %q", t.s)
		}
	}
}

func (sp *specParser) primary() SExpr {
	t := sp.next()
	switch t.kind {
	case tIdent:
		return &SIdent{t.s}
	case tInt, tFloat, tString, tChar:
		return &SLit{t.kind, t.s}
	case tOp:
		if t.s == "(" {
			// "(*T)" type in parens is not supported; plain parenthesised expr
			e := sp.expr(0)
			sp.expect(")")
			return e
		}
	}
	sp.fail("unexpected token %q", t.s)
	return nil
}

func (sp *specParser) postfix(x SExpr) SExpr {
	for {
		switch {
		case sp.isOp("."):
			sp.next()
			if sp.isOp("(") {
				sp.next()
				ty := sp.typeExpr()
				sp.expect(")")
				x = &SAssert{x, ty}
				continue
			}
			n := sp.next()
			if n.kind != tIdent {
				sp.fail("expected selector name")
			}
			x = &SSel{x, n.s}
		case sp.isOp("("):
			sp.next()
			var args []SExpr
			// typeof(x) == T and istype(x, T) take type arguments; detect by callee name
			fname := ""
			if id, ok := x.(*SIdent); ok {
				fname = id.Name
			}
			for !sp.isOp(")") {
				if (fname == "istype" || fname == "as" || fname == "tagof" || fname == "implements") && (len(args) == 1 || fname == "tagof") {
					args = append(args, sp.typeExpr())
				} else {
					args = append(args, sp.expr(0))
				}
				if sp.isOp(",") {
					sp.next()
				} else {
					break
				}
			}
			sp.expect(")")
			x = &SCall{x, args}
		case sp.isOp("["):
			sp.next()
			var lo SExpr
			if !sp.isOp(":") {
				lo = sp.expr(0)
			}
			if sp.isOp(":") {
				sp.next()
				var hi SExpr
				if !sp.isOp("]") {
					hi = sp.expr(0)
				}
				sp.expect("]")
				x = &SSlice{x, lo, hi}
			} else {
				sp.expect("]")
				x = &SIndex{x, lo}
			}
		default:
			return x
		}
	}
}
