package main

import (
	"flag"
	"fmt"
	"go/token"
	"os"
	"regexp"
	"runtime/debug"
	"sort"
	"strings"
	"sync"
	"time"

	"golang.org/x/tools/go/ssa"
)

func main() {
	if len(os.Args) < 2 {
		fmt.Fprintln(os.Stderr, "usage: gocv run|check|loops ...")
		os.Exit(2)
	}
	switch os.Args[1] {
	case "run":
		cmdRun(os.Args[2:])
	case "check":
		cmdCheck(os.Args[2:])
	case "ssa":
		cmdSSA(os.Args[2:])
	default:
		fmt.Fprintln(os.Stderr, "unknown command", os.Args[1])
		os.Exit(2)
	}
}

type fnResult struct {
	g   *fnGen
	err error
}

// verifyFuncs generates and solves the given functions in parallel.
func verifyFuncs(P *Prog, fns []*ssa.Function, opt solveOpts, par int) []*fnResult {
	res := make([]*fnResult, len(fns))
	var wg sync.WaitGroup
	sem := make(chan struct{}, par)
	var genMu sync.Mutex // contract hooks carry a 'used' flag; generation is cheap, keep it serial
	for i, fn := range fns {
		wg.Add(1)
		go func(i int, fn *ssa.Function) {
			defer wg.Done()
			sem <- struct{}{}
			defer func() { <-sem }()
			r := &fnResult{}
			res[i] = r
			func() {
				defer func() {
					if x := recover(); x != nil {
						r.err = fmt.Errorf("generator panic in %s: %v", fn.String(), x)
						if os.Getenv("GOCV_TRACE") != "" {
							fmt.Fprintf(os.Stderr, "%s\n%s\n", r.err, debug.Stack())
						}
					}
				}()
				genMu.Lock()
				ct := P.cs.Funcs[fn.String()]
				if ct != nil && ct.Synth && fn.Origin() != nil && P.cs.Funcs[fn.Origin().String()] != nil {
					ct = nil // a written contract on the generic origin wins over a synthesized sweep contract
				}
				if ct == nil && fn.Origin() != nil {
					// an instance of a generic function or method without a contract of its own is governed by
					// the contract written on the generic declaration (`func (c *perVM[T]) get`)
					ct = P.cs.Funcs[fn.Origin().String()]
				}
				if ct == nil && len(opt.sweepFlags) > 0 {
					// zero-annotation sweep: a function without a contract gets the property's sweep flags only
					pk := ""
					if fn.Pkg != nil {
						pk = fn.Pkg.Pkg.Path()
					}
					ct = &FuncContract{Key: shortName(fn.String()), PkgPath: pk, Flags: map[string]bool{}, Loops: map[int]*LoopSpec{}, Synth: true}
					for _, f := range opt.sweepFlags {
						ct.Flags[f] = true
					}
				}
				g := P.newGen(fn, ct)
				r.g = g
				func() {
					defer genMu.Unlock()
					g.generate()
					g.nameObligations()
				}()
				r.err = g.solve(opt)
			}()
		}(i, fn)
	}
	wg.Wait()
	return res
}

func cmdRun(args []string) {
	fs := flag.NewFlagSet("run", flag.ExitOnError)
	repo := fs.String("repo", "/repo", "repository root")
	pkgs := fs.String("pkgs", "", "comma-separated package patterns")
	fnre := fs.String("fn", "", "regexp on function names (default: all functions with a contract)")
	all := fs.Bool("all", false, "include functions without a contract (implicit obligations only)")
	dir := fs.String("out", "/tmp/gocv-out", "scratch dir for SMT files")
	tmo := fs.Int("t", 5000, "per-query timeout (ms)")
	keep := fs.Bool("keep", false, "keep SMT files")
	verbose := fs.Bool("v", false, "print every obligation")
	prelude := fs.String("prelude", "/verif/prelude", "prelude dir")
	fs.Parse(args)
	os.MkdirAll(*dir, 0o755)
	t0 := time.Now()
	P, err := loadProg(*repo, strings.Split(*pkgs, ","), *prelude)
	if err != nil {
		fmt.Fprintln(os.Stderr, "load:", err)
		os.Exit(2)
	}
	for _, p := range P.cs.Problems {
		fmt.Println("CONTRACT PROBLEM:", p)
	}
	fmt.Printf("loaded in %.1fs, %d functions\n", time.Since(t0).Seconds(), len(P.funcs))
	var re *regexp.Regexp
	if *fnre != "" {
		re = regexp.MustCompile(*fnre)
	}
	var fns []*ssa.Function
	for name, fn := range P.funcs {
		_, has := P.cs.Funcs[name]
		if !has && !*all {
			continue
		}
		if re != nil && !re.MatchString(name) {
			continue
		}
		if len(fn.Blocks) == 0 {
			continue
		}
		fns = append(fns, fn)
	}
	sort.Slice(fns, func(i, j int) bool { return fns[i].String() < fns[j].String() })
	res := verifyFuncs(P, fns, solveOpts{dir: *dir, timeoutMs: *tmo, keepFiles: *keep}, 16)
	tot, ok := 0, 0
	for _, r := range res {
		if r.err != nil {
			fmt.Println("ERROR:", r.err)
		}
		if r.g == nil {
			continue
		}
		g := r.g
		for _, s := range g.stale {
			fmt.Printf("STALE %s: %s\n", g.key, s)
		}
		for _, ob := range g.obls {
			tot++
			if ob.Status == "discharged" {
				ok++
			}
			if *verbose || ob.Status != "discharged" {
				fmt.Printf("%-10s %-60s %s [%s %.2fs] %s\n", ob.Status, ob.Name, ob.PosStr, ob.Backend, ob.Seconds, ob.Desc)
				if ob.Status == "undecided" && *verbose {
					fmt.Printf("           solvers: %s\n", ob.SolverOut)
				}
			}
		}
		if *verbose {
			for _, a := range sortedKeys(g.abstracted) {
				fmt.Printf("  abstracted: %s\n", a)
			}
			for _, a := range sortedKeys(g.uncontracted) {
				fmt.Printf("  no contract: %s\n", a)
			}
		}
	}
	fmt.Printf("%d/%d obligations discharged, %.1fs\n", ok, tot, time.Since(t0).Seconds())
}

func cmdSSA(args []string) {
	fs := flag.NewFlagSet("ssa", flag.ExitOnError)
	repo := fs.String("repo", "/repo", "repository root")
	pkgs := fs.String("pkgs", "", "package patterns")
	fnre := fs.String("fn", "", "regexp on function names")
	fs.Parse(args)
	P, err := loadProg(*repo, strings.Split(*pkgs, ","), "")
	if err != nil {
		fmt.Fprintln(os.Stderr, "load:", err)
		os.Exit(2)
	}
	re := regexp.MustCompile(*fnre)
	var names []string
	for n := range P.funcs {
		if re.MatchString(n) {
			names = append(names, n)
		}
	}
	sort.Strings(names)
	for _, n := range names {
		fn := P.funcs[n]
		fn.WriteTo(os.Stdout)
		g := P.newGen(fn, nil)
		g.findLoops()
		var hs []*loopInfo
		for _, li := range g.loops {
			hs = append(hs, li)
		}
		sort.Slice(hs, func(i, j int) bool { return hs[i].ord < hs[j].ord })
		g.buildPosIndex()
		type cs struct {
			pos  token.Pos
			text string
			ord  int
		}
		var calls []cs
		for p, o := range g.callPosOrd {
			calls = append(calls, cs{p, g.posText[p], o})
		}
		sort.Slice(calls, func(i, j int) bool { return calls[i].pos < calls[j].pos })
		for _, c := range calls {
			fmt.Printf("# call %s#%d line %d\n", c.text, c.ord, P.prog.Fset.Position(c.pos).Line)
		}
		for _, li := range hs {
			line := 0
			for _, ins := range li.header.Instrs {
				if ins.Pos().IsValid() {
					line = P.prog.Fset.Position(ins.Pos()).Line
					break
				}
			}
			fmt.Printf("# loop %d: header block %d (%s) line~%d, %d blocks\n", li.ord, li.header.Index, li.header.Comment, line, len(li.blocks))
		}
	}
}
