package main

import (
	"bufio"
	"bytes"
	"context"
	"fmt"
	"os"
	"os/exec"
	"path/filepath"
	"sort"
	"strings"
	"sync"
	"time"
)

type solverCfg struct {
	name string
	argv func(file string, timeoutMs int) []string
	pre  string
}

var solvers = map[string]solverCfg{
	"z3-new": {"z3-new", func(f string, ms int) []string { return []string{"z3-new", "-smt2", fmt.Sprintf("-t:%d", ms), f} }, ""},
	"z3":     {"z3", func(f string, ms int) []string { return []string{"z3", "-smt2", fmt.Sprintf("-t:%d", ms), f} }, ""},
	"cvc5": {"cvc5", func(f string, ms int) []string {
		return []string{"cvc5", "--incremental", fmt.Sprintf("--tlimit-per=%d", ms), "--lang=smt2", f}
	}, "(set-logic ALL)\n"},
}

func (g *fnGen) scriptHeader() string {
	var b strings.Builder
	b.WriteString(g.R.preludeText(g.P.implements))
	if len(g.errGlobals) > 1 {
		var vs []string
		for _, e := range g.errGlobals {
			vs = append(vs, S("i-val", e))
		}
		b.WriteString("(assert (distinct " + strings.Join(vs, " ") + "))\n")
	}
	if len(g.globals) > 1 {
		b.WriteString("(assert (distinct " + strings.Join(g.globals, " ") + "))\n")
	}
	return b.String()
}

// script renders the items up to and including obligation index upTo (-1: all);
// only==true emits a check for that single obligation (with get-model).
func (g *fnGen) script(only *Obligation, withModel bool) string {
	var b strings.Builder
	hdr := g.scriptHeader()
	defer func() { _ = hdr }()
	for _, it := range g.items {
		if it.ob == nil {
			b.WriteString(it.text + "\n")
			continue
		}
		if only != nil && it.ob != only {
			continue
		}
		ob := it.ob
		b.WriteString("(push 1)\n")
		fmt.Fprintf(&b, "(assert %s)\n", ob.Guard)
		if !ob.Cover {
			fmt.Fprintf(&b, "(assert (not %s))\n", ob.Goal)
		}
		if only == nil && !ob.Cover && g.wantRetry != nil && !g.wantRetry(ob.Name) {
			// unclaimed obligation: informational only, keep it cheap
			fmt.Fprintf(&b, "(set-option :timeout 400)\n(echo \"@@ %d\")\n(check-sat)\n(set-option :timeout %d)\n", ob.seq, g.timeoutMs)
		} else if ob.Cover && only == nil {
			fmt.Fprintf(&b, "(set-option :timeout 400)\n(echo \"@@ %d\")\n(check-sat)\n(set-option :timeout %d)\n", ob.seq, g.timeoutMs)
		} else {
			fmt.Fprintf(&b, "(echo \"@@ %d\")\n(check-sat)\n", ob.seq)
		}
		if withModel && only != nil {
			b.WriteString("(get-model)\n")
		}
		b.WriteString("(pop 1)\n")
		if only != nil {
			break
		}
	}
	body := b.String()
	pre := ""
	if withModel {
		pre = "(set-option :produce-models true)\n"
	}
	return pre + smtPreludeFor(hdr+body) + hdr + body
}

type solveOpts struct {
	dir        string
	timeoutMs  int
	thorough   bool
	seed       int
	keepFiles  bool
	wantRetry  func(name string) bool
	sweepFlags []string
}

func runSolver(ctx context.Context, sc solverCfg, file string, timeoutMs int, onLine func(line string, at time.Time)) (string, error) {
	argv := sc.argv(file, timeoutMs)
	cmd := exec.CommandContext(ctx, argv[0], argv[1:]...)
	var stderr bytes.Buffer
	cmd.Stderr = &stderr
	out, err := cmd.StdoutPipe()
	if err != nil {
		return "", err
	}
	if err := cmd.Start(); err != nil {
		return "", err
	}
	var all strings.Builder
	rd := bufio.NewScanner(out)
	rd.Buffer(make([]byte, 1<<20), 1<<26)
	for rd.Scan() {
		l := rd.Text()
		all.WriteString(l + "\n")
		if onLine != nil {
			onLine(l, time.Now())
		}
	}
	cmd.Wait()
	return all.String() + stderr.String(), nil
}

// solve runs all obligations of the function through the primary solver, then
// retries the undecided ones individually on the other solvers.
func (g *fnGen) solve(opt solveOpts) error {
	if len(g.obls) == 0 {
		return nil
	}
	g.timeoutMs = opt.timeoutMs
	g.wantRetry = opt.wantRetry
	base := filepath.Join(opt.dir, sanitizeFile(g.key))
	file := base + ".smt2"
	if err := os.WriteFile(file, []byte(g.script(nil, false)), 0o644); err != nil {
		return err
	}
	bySeq := map[int]*Obligation{}
	for _, ob := range g.obls {
		bySeq[ob.seq] = ob
		ob.Status = "undecided"
	}
	// budget: per-query timeout times obligations, bounded
	total := time.Duration(opt.timeoutMs)*time.Millisecond*time.Duration(len(g.obls)) + 30*time.Second
	ctx, cancel := context.WithTimeout(context.Background(), total)
	defer cancel()
	var cur *Obligation
	last := time.Now()
	var errLines []string
	out, err := runSolver(ctx, solvers["z3-new"], file, opt.timeoutMs, func(l string, at time.Time) {
		switch {
		case strings.HasPrefix(l, "@@ "):
			var n int
			fmt.Sscanf(l, "@@ %d", &n)
			cur = bySeq[n]
			last = at
		case l == "sat" || l == "unsat" || l == "unknown" || l == "timeout":
			if cur != nil {
				cur.Seconds = at.Sub(last).Seconds()
				cur.Backend = "z3-new"
				cur.SolverOut = l
				cur.Status = classify(cur, l)
				cur = nil
			}
		case strings.HasPrefix(l, "(error"):
			errLines = append(errLines, l)
		}
	})
	if err != nil {
		return err
	}
	if len(errLines) > 0 {
		return fmt.Errorf("solver errors in %s: %s", file, strings.Join(errLines[:min(3, len(errLines))], " | "))
	}
	_ = out
	// retry undecided / get models for failures (obligations in parallel, solvers raced)
	var wg sync.WaitGroup
	for _, ob := range g.obls {
		if ob.Status == "discharged" {
			if opt.thorough && !ob.Cover {
				wg.Add(1)
				go func(ob *Obligation) { defer wg.Done(); g.crossCheck(ob, base, opt) }(ob)
			}
			continue
		}
		if opt.wantRetry != nil && !opt.wantRetry(ob.Name) {
			continue
		}
		wg.Add(1)
		go func(ob *Obligation) { defer wg.Done(); g.retry(ob, base, opt) }(ob)
	}
	wg.Wait()
	if !opt.keepFiles {
		// keep the main script only when something is not discharged
		allOK := true
		for _, ob := range g.obls {
			if ob.Status != "discharged" {
				allOK = false
			}
		}
		if allOK {
			os.Remove(file)
		}
	}
	return nil
}

func classify(ob *Obligation, res string) string {
	if ob.Cover {
		switch res {
		case "sat":
			return "discharged"
		case "unsat":
			return "failed" // vacuous: unreachable / contradictory assumptions
		}
		return "discharged" // unknown on a cover check: cannot show vacuity; not an alarm
	}
	switch res {
	case "unsat":
		return "discharged"
	case "sat":
		return "failed"
	}
	return "undecided"
}

var solverSem = make(chan struct{}, 16)

type raceResult struct {
	name, res, model string
	secs             float64
}

func (g *fnGen) retry(ob *Obligation, base string, opt solveOpts) {
	file := fmt.Sprintf("%s.ob%d.smt2", base, ob.seq)
	os.WriteFile(file, []byte(g.script(ob, true)), 0o644)
	tm := opt.timeoutMs * 2
	ctx, cancel := context.WithTimeout(context.Background(), time.Duration(tm)*time.Millisecond+5*time.Second)
	defer cancel()
	ch := make(chan raceResult, 4)
	names := []string{"z3-new", "z3", "cvc5", "relaxed"}
	for _, name := range names {
		go func(name string) {
			solverSem <- struct{}{}
			defer func() { <-solverSem }()
			sc := solvers[name]
			f := file
			if name == "relaxed" {
				// same query with every quantified assertion dropped: unsat is still a proof
				// (fewer assumptions); sat yields a candidate counterexample for the replay.
				sc = solvers["z3-new"]
				f = file + ".relaxed"
				data, _ := os.ReadFile(file)
				var keep []string
				for _, l := range strings.Split(string(data), "\n") {
					if strings.Contains(l, "(forall ") || strings.Contains(l, "(exists ") {
						continue
					}
					keep = append(keep, l)
				}
				os.WriteFile(f, []byte(strings.Join(keep, "\n")), 0o644)
				defer os.Remove(f)
			}
			if sc.pre != "" {
				f = file + "." + name
				data, _ := os.ReadFile(file)
				os.WriteFile(f, append([]byte(sc.pre), data...), 0o644)
				defer os.Remove(f)
			}
			t0 := time.Now()
			out, err := runSolver(ctx, sc, f, tm, nil)
			rr := raceResult{name: name, secs: time.Since(t0).Seconds()}
			if err == nil {
				lines := strings.Split(out, "\n")
				for i, l := range lines {
					l = strings.TrimSpace(l)
					if l == "sat" || l == "unsat" || l == "unknown" || l == "timeout" {
						rr.res = l
						if l == "sat" {
							rr.model = strings.Join(lines[i+1:], "\n")
						}
						break
					}
				}
			}
			ch <- rr
		}(name)
	}
	var outs []string
	for range names {
		rr := <-ch
		outs = append(outs, rr.name+": "+rr.res)
		if rr.res == "" {
			continue
		}
		st := classify(ob, rr.res)
		if rr.name == "relaxed" && rr.res == "sat" {
			// candidate only: quantified axioms were dropped
			if ob.Model == "" {
				ob.Model = rr.model
				ob.ModelRelaxed = true
			}
			continue
		}
		if rr.res == "unsat" || rr.res == "sat" {
			ob.Status, ob.Backend, ob.Seconds, ob.SolverOut = st, rr.name, rr.secs, rr.res
			ob.Model = rr.model
			cancel()
			break
		}
	}
	if ob.Status == "undecided" {
		ob.SolverOut = strings.Join(outs, "; ")
	}
	if ob.Status != "discharged" && os.Getenv("GOCV_EXPLAIN") != "" && !ob.Cover {
		ob.SolverOut += "; conjuncts: " + g.explain(ob, base, opt)
	}
	if !opt.keepFiles && ob.Status == "discharged" {
		os.Remove(file)
	}
}

// crossCheck (thorough tier): a discharged obligation should be unsat on a second solver as well.
func (g *fnGen) crossCheck(ob *Obligation, base string, opt solveOpts) {
	file := fmt.Sprintf("%s.ob%d.x.smt2", base, ob.seq)
	os.WriteFile(file, []byte("(set-logic ALL)\n"+g.script(ob, false)), 0o644)
	defer os.Remove(file)
	for _, name := range []string{"cvc5", "z3"} {
		ctx, cancel := context.WithTimeout(context.Background(), time.Duration(opt.timeoutMs)*time.Millisecond+5*time.Second)
		out, err := runSolver(ctx, solvers[name], file, opt.timeoutMs, nil)
		cancel()
		if err != nil {
			continue
		}
		for _, l := range strings.Split(out, "\n") {
			switch strings.TrimSpace(l) {
			case "unsat":
				ob.Backend += "+" + name
				return
			case "sat":
				ob.Backend += "+" + name + ":DISAGREES"
				ob.Status = "undecided"
				return
			}
		}
	}
	ob.Backend += " (single-solver)"
}

func sanitizeFile(s string) string {
	r := strings.NewReplacer("/", "_", "(", "", ")", "", "*", "p", " ", "_", "$", "_")
	return r.Replace(s)
}

// nameObligations assigns the stable names: <fn>:<kind>:<anchor>#<ord>
func (g *fnGen) nameObligations() {
	type key struct{ kind, anchor string }
	groups := map[key][]*Obligation{}
	for _, ob := range g.obls {
		k := key{ob.Kind, ob.Anchor}
		groups[k] = append(groups[k], ob)
	}
	for k, obs := range groups {
		sort.SliceStable(obs, func(i, j int) bool {
			if obs[i].Pos != obs[j].Pos {
				return obs[i].Pos < obs[j].Pos
			}
			return obs[i].seq < obs[j].seq
		})
		for i, ob := range obs {
			name := fmt.Sprintf("%s:%s:%s", g.key, k.kind, k.anchor)
			if len(obs) > 1 {
				name += fmt.Sprintf("#%d", i+1)
			}
			ob.Name = name
		}
	}
}

// splitAnd flattens the top-level conjunction of an SMT term.
func splitAnd(t string) []string {
	t = strings.TrimSpace(t)
	if !strings.HasPrefix(t, "(and ") {
		return []string{t}
	}
	var parts []string
	depth, start := 0, -1
	body := t[5 : len(t)-1]
	for i := 0; i < len(body); i++ {
		c := body[i]
		switch {
		case c == '|':
			if start < 0 {
				start = i
			}
			for i++; i < len(body) && body[i] != '|'; i++ {
			}
			if depth == 0 {
				parts = append(parts, body[start:i+1])
				start = -1
			}
		case c == '(':
			if depth == 0 && start < 0 {
				start = i
			}
			depth++
		case c == ')':
			depth--
			if depth == 0 {
				parts = append(parts, body[start:i+1])
				start = -1
			}
		case c == ' ' || c == '\n':
			if depth == 0 && start >= 0 {
				parts = append(parts, body[start:i])
				start = -1
			}
		default:
			if start < 0 {
				start = i
			}
		}
	}
	if start >= 0 {
		parts = append(parts, body[start:])
	}
	var out []string
	for _, p := range parts {
		out = append(out, splitAnd(p)...)
	}
	return out
}

// explain (debugging aid, GOCV_EXPLAIN=1): which conjuncts of an undischarged goal fail on their own.
func (g *fnGen) explain(ob *Obligation, base string, opt solveOpts) string {
	var res []string
	goal := ob.Goal
	for i, c := range splitAnd(goal) {
		ob.Goal = c
		file := fmt.Sprintf("%s.ob%d.c%d.smt2", base, ob.seq, i)
		os.WriteFile(file, []byte(g.script(ob, false)), 0o644)
		ctx, cancel := context.WithTimeout(context.Background(), time.Duration(opt.timeoutMs)*time.Millisecond+5*time.Second)
		out, _ := runSolver(ctx, solvers["z3-new"], file, opt.timeoutMs, nil)
		cancel()
		os.Remove(file)
		r := "?"
		for _, l := range strings.Split(out, "\n") {
			l = strings.TrimSpace(l)
			if l == "sat" || l == "unsat" || l == "unknown" || l == "timeout" {
				r = l
				break
			}
		}
		if r != "unsat" {
			cc := c
			if len(cc) > 160 {
				cc = cc[:160] + "..."
			}
			res = append(res, fmt.Sprintf("[%d %s] %s", i, r, cc))
		}
	}
	ob.Goal = goal
	return strings.Join(res, " || ")
}
