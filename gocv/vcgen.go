package main

// VC generation for one function: go/ssa (NaiveForm) -> guarded passive form.
//
//  * loops are cut at their headers (invariant asserted on every edge into the
//    header, loop-modified state havocked, invariant assumed);
//  * the remaining DAG is walked in reverse post-order; every block has a
//    Boolean reach term; joins introduce fresh constants tied to the incoming
//    edge conditions (linear size);
//  * every obligation is one (push)(assert guard)(assert (not goal))(check-sat)(pop)
//    emitted *in program order* between the definitions, so that assumptions
//    made later in the program can never help an earlier obligation.

import (
	"fmt"
	"go/ast"
	"go/constant"
	"go/token"
	"go/types"
	"math/big"
	"sort"
	"strings"

	"golang.org/x/tools/go/ssa"
)

type Obligation struct {
	Name         string
	Kind         string // ensures, requires-at-call, invariant-entry, invariant-preserved, decreases, bounds, slice, nil, assert-type, div, frame, guard, shared-write, chan, hook, unreachable, lemma, cover
	Anchor       string
	Pos          token.Pos
	PosStr       string
	Desc         string
	Guard        string
	Goal         string
	Cover        bool // sat expected (vacuity guard)
	Status       string
	Backend      string
	Seconds      float64
	Model        string
	ModelRelaxed bool
	SolverOut    string
	seq          int
	Fn           string
}

type item struct {
	text string      // declaration or assertion
	ob   *Obligation // or an obligation to check at this point
}

type epoch struct {
	id           int
	parents      []epochParent // join
	havocOf      *epoch        // after a havoc-all (no equalities)
	havocOfState *state
	made         map[string]bool
}
type epochParent struct {
	cond string
	st   *state
}

type state struct {
	reach  string
	regs   map[ssa.Value]string
	heap   map[string]string
	ep     *epoch
	alloc  string
	ghost  map[string]string
	defers []*ssa.Defer
	// ghost arrays live in heap too, prefixed "G!"
	lockSnap *state // state right after the most recent lock acquisition (guarded state havocked)
}

func (s *state) clone() *state {
	n := &state{reach: s.reach, ep: s.ep, alloc: s.alloc, lockSnap: s.lockSnap}
	n.regs = make(map[ssa.Value]string, len(s.regs))
	for k, v := range s.regs {
		n.regs[k] = v
	}
	n.heap = make(map[string]string, len(s.heap))
	for k, v := range s.heap {
		n.heap[k] = v
	}
	n.ghost = make(map[string]string, len(s.ghost))
	for k, v := range s.ghost {
		n.ghost[k] = v
	}
	n.defers = append([]*ssa.Defer(nil), s.defers...)
	return n
}

type loopInfo struct {
	header    *ssa.BasicBlock
	blocks    map[*ssa.BasicBlock]bool
	ord       int
	spec      *LoopSpec
	modRegs   map[ssa.Value]bool
	modHeap   map[string]bool
	modAll    bool
	modGhost  map[string]bool
	modAlloc  bool
	headState *state // state after havoc+assume (for decreases)
	entryDec  string
}

type fnGen struct {
	P               *Prog
	fn              *ssa.Function
	ct              *FuncContract
	key             string
	R               *sortReg
	items           []item
	obls            []*Obligation
	vals            map[ssa.Value]string
	nfresh          int
	heapSorts       map[string]string // array name -> sort
	heapOrder       []string
	epochs          int
	entry           *state
	loops           map[*ssa.BasicBlock]*loopInfo
	inLoops         map[*ssa.BasicBlock][]*loopInfo
	outStates       map[*ssa.BasicBlock]*state
	edgeConds       map[[2]int]string
	posText         map[token.Pos]string
	sortedKeyRanges map[token.Pos]bool // map ranges that only collect the keys into a slice sorted right afterwards
	abstracted      map[string]bool
	assumptions     map[string]bool
	stale           []string
	retIndex        int
	prov            map[ssa.Value]*guardProv
	curBlock        *ssa.BasicBlock
	paramVals       map[string]string // param name -> entry term
	paramTypes      map[string]types.Type
	resNames        []string
	callOrd         map[string]int
	hookSeen        map[*Hook]bool
	frameEntryAlloc string
	usedContracts   map[string]bool
	ghostTypes      map[string]types.Type
	axiomsText      []string
	axiomsDone      bool
	globals         []string
	tuples          map[ssa.Value][]string
	retOrd          int
	regProv         map[*ssa.Alloc]*guardProv
	deferArgs       map[*ssa.Defer]*callArgs
	uncontracted    map[string]bool
	callPosOrd      map[token.Pos]int
	noFrame         bool
	frameDone       bool
	frame           []assignLoc
	frameAll        bool
	timeoutMs       int
	errGlobals      []string
	wantRetry       func(string) bool
	privateFV       map[*ssa.FreeVar]bool
	mapOrderSeen    map[*ssa.Range]bool
}

type guardProv struct {
	decl  *GuardDecl
	owner string // term of the struct ref owning the mutex
	field string
}

func (g *fnGen) freshName(prefix string) string {
	g.nfresh++
	return q(fmt.Sprintf("%s!%d", prefix, g.nfresh))
}

func (g *fnGen) declare(sym, sortName string) {
	g.items = append(g.items, item{text: fmt.Sprintf("(declare-const %s %s)", sym, sortName)})
}

func (g *fnGen) assert(t string) {
	if t == "true" {
		return
	}
	g.items = append(g.items, item{text: "(assert " + t + ")"})
}

// assume under the reach of the current state
func (g *fnGen) assume(st *state, t string) {
	g.assert(Imp(st.reach, t))
}

func (g *fnGen) freshConst(prefix, sortName string) string {
	s := g.freshName(prefix)
	g.declare(s, sortName)
	return s
}

// define introduces a named constant equal to term (keeps terms small).
func (g *fnGen) define(prefix, sortName, term string) string {
	if len(term) < 40 {
		return term
	}
	s := g.freshConst(prefix, sortName)
	g.assert(S("=", s, term))
	return s
}

func (g *fnGen) oblige(st *state, kind, anchor string, pos token.Pos, extraGuard, goal, desc string) *Obligation {
	ob := &Obligation{Kind: kind, Anchor: anchor, Pos: pos, Guard: And(st.reach, extraGuard), Goal: goal, Desc: desc, seq: len(g.obls), Fn: g.key}
	if pos.IsValid() {
		p := g.P.prog.Fset.Position(pos)
		ob.PosStr = fmt.Sprintf("%s:%d", relPath(p.Filename), p.Line)
	}
	g.obls = append(g.obls, ob)
	g.items = append(g.items, item{ob: ob})
	return ob
}

var repoRoot = "/repo"

func relPath(p string) string { return strings.TrimPrefix(p, repoRoot+"/") }

// ---- heap ------------------------------------------------------------------

func (g *fnGen) heapArray(st *state, name, sortName string) string {
	if t, ok := st.heap[name]; ok {
		return t
	}
	g.registerArray(name, sortName)
	return g.epochArray(st.ep, name)
}

func (g *fnGen) epochArray(ep *epoch, name string) string {
	sym := q(fmt.Sprintf("%s@%d", name, ep.id))
	if ep.made[name] {
		return sym
	}
	ep.made[name] = true
	g.declare(sym, g.heapSorts[name])
	for _, p := range ep.parents {
		var pt string
		if t, ok := p.st.heap[name]; ok {
			pt = t
		} else {
			pt = g.epochArray(p.st.ep, name)
		}
		g.assert(Imp(p.cond, S("=", sym, pt)))
	}
	if ep.havocOf != nil && strings.HasPrefix(name, "G!") {
		// ghost state survives a havoc of the real heap
		g.assert(S("=", sym, g.epochArrayOrState(ep.havocOfState, ep.havocOf, name)))
	}
	return sym
}

func (g *fnGen) epochArrayOrState(st *state, ep *epoch, name string) string {
	if st != nil {
		if t, ok := st.heap[name]; ok {
			return t
		}
	}
	return g.epochArray(ep, name)
}

func (g *fnGen) newEpoch() *epoch {
	g.epochs++
	return &epoch{id: g.epochs, made: map[string]bool{}}
}

// havocAll: unknown callee – every real heap array becomes unconstrained;
// ghost arrays (G!…) keep their value (assumption, listed in the evidence).
func (g *fnGen) havocAll(st *state) {
	prev := st.clone()
	ep := g.newEpoch()
	ep.havocOf = prev.ep
	ep.havocOfState = prev
	newHeap := map[string]string{}
	for k, v := range st.heap {
		if strings.HasPrefix(k, "G!") {
			newHeap[k] = v
		}
	}
	st.heap = newHeap
	st.ep = ep
	na := g.freshConst("ALLOC", "Int")
	g.assume(st, S(">=", na, st.alloc))
	st.alloc = na
	g.assumptions["calls to functions without a contract havoc the real heap but are assumed not to change ghost state (lock state, wire state)"] = true
}

func (g *fnGen) havocArray(st *state, name string) {
	srt, ok := g.heapSorts[name]
	if !ok {
		return
	}
	st.heap[name] = g.freshConst(name, srt)
}

func (g *fnGen) fieldArrayName(structT types.Type, f *types.Var) string {
	return "F!" + shortTypeKey(structT) + "!" + f.Name()
}

func (g *fnGen) readField(st *state, structT types.Type, f *types.Var, ref string) string {
	name := g.fieldArrayName(structT, f)
	arr := g.heapArray(st, name, "(Array Int "+g.R.sortOf(f.Type())+")")
	return S("select", arr, ref)
}

func (g *fnGen) writeField(st *state, structT types.Type, f *types.Var, ref, val string) {
	name := g.fieldArrayName(structT, f)
	srt := "(Array Int " + g.R.sortOf(f.Type()) + ")"
	arr := g.heapArray(st, name, srt)
	n := g.freshConst(name, srt)
	g.assert(S("=", n, S("store", arr, ref, val)))
	st.heap[name] = n
}

func (g *fnGen) elemArrayName(elem types.Type) string { return "E!" + shortTypeKey(elem) }

func (g *fnGen) readElem(st *state, elem types.Type, base, idx string) string {
	name := g.elemArrayName(elem)
	arr := g.heapArray(st, name, "(Array Int (Array Int "+g.R.sortOf(elem)+"))")
	return S("select", S("select", arr, base), idx)
}

func (g *fnGen) writeElem(st *state, elem types.Type, base, idx, val string) {
	name := g.elemArrayName(elem)
	srt := "(Array Int (Array Int " + g.R.sortOf(elem) + "))"
	arr := g.heapArray(st, name, srt)
	n := g.freshConst(name, srt)
	g.assert(S("=", n, S("store", arr, base, S("store", S("select", arr, base), idx, val))))
	st.heap[name] = n
}

func (g *fnGen) cellArrayName(t types.Type) string { return "C!" + shortTypeKey(t) }

func (g *fnGen) readCell(st *state, t types.Type, ref string) string {
	name := g.cellArrayName(t)
	arr := g.heapArray(st, name, "(Array Int "+g.R.sortOf(t)+")")
	return S("select", arr, ref)
}

func (g *fnGen) writeCell(st *state, t types.Type, ref, val string) {
	name := g.cellArrayName(t)
	srt := "(Array Int " + g.R.sortOf(t) + ")"
	arr := g.heapArray(st, name, srt)
	n := g.freshConst(name, srt)
	g.assert(S("=", n, S("store", arr, ref, val)))
	st.heap[name] = n
}

// load a value of type t stored at pointer ref (struct: field-wise)
func (g *fnGen) loadAt(st *state, t types.Type, ref string) string {
	if info := g.R.structInfoOf(t); info != nil {
		if len(info.fields) == 0 {
			return info.ctor
		}
		var fs []string
		for i, f := range info.fields {
			if _, isStruct := f.Type().Underlying().(*types.Struct); isStruct {
				fs = append(fs, g.loadAt(st, f.Type(), g.fieldAddrTerm(t, i, ref)))
			} else {
				fs = append(fs, g.readField(st, t, f, ref))
			}
		}
		return S(info.ctor, fs...)
	}
	return g.readCell(st, t, ref)
}

func (g *fnGen) storeAt(st *state, t types.Type, ref, val string) {
	if info := g.R.structInfoOf(t); info != nil {
		for i, f := range info.fields {
			fv := S(info.sels[i], val)
			if _, isStruct := f.Type().Underlying().(*types.Struct); isStruct {
				g.storeAt(st, f.Type(), g.fieldAddrTerm(t, i, ref), fv)
			} else {
				g.writeField(st, t, f, ref, fv)
			}
		}
		return
	}
	g.writeCell(st, t, ref, val)
}

// interior pointer &ref.f for an embedded struct-valued field
func (g *fnGen) fieldAddrTerm(structT types.Type, idx int, ref string) string {
	st := structT.Underlying().(*types.Struct)
	sym := q("fa!" + shortTypeKey(structT) + "!" + st.Field(idx).Name())
	inv := q("fainv!" + shortTypeKey(structT) + "!" + st.Field(idx).Name())
	if _, ok := g.R.uninterp[sym]; !ok {
		g.R.declareFun(sym, fmt.Sprintf("(declare-fun %s (Int) Int)", sym))
		g.R.declareFun(inv, fmt.Sprintf("(declare-fun %s (Int) Int)", inv))
		g.R.extraAxioms = append(g.R.extraAxioms, fmt.Sprintf("(assert (forall ((p Int)) (! (and (< (%s p) 0) (= (%s (%s p)) p)) :pattern ((%s p)))))", sym, inv, sym, sym))
	}
	return S(sym, ref)
}

func (g *fnGen) elemAddrTerm(elem types.Type, base, idx string) string {
	sym := q("ea!" + shortTypeKey(elem))
	ib, ii := q("eab!"+shortTypeKey(elem)), q("eai!"+shortTypeKey(elem))
	if _, ok := g.R.uninterp[sym]; !ok {
		g.R.declareFun(sym, fmt.Sprintf("(declare-fun %s (Int Int) Int)", sym))
		g.R.declareFun(ib, fmt.Sprintf("(declare-fun %s (Int) Int)", ib))
		g.R.declareFun(ii, fmt.Sprintf("(declare-fun %s (Int) Int)", ii))
		g.R.extraAxioms = append(g.R.extraAxioms, fmt.Sprintf("(assert (forall ((b Int) (i Int)) (! (and (< (%s b i) 0) (= (%s (%s b i)) b) (= (%s (%s b i)) i)) :pattern ((%s b i)))))", sym, ib, sym, ii, sym, sym))
	}
	return S(sym, base, idx)
}

// ---- addresses ---------------------------------------------------------------

// An address is resolved syntactically from the SSA value that computes it.
type addrKind int

const (
	akReg  addrKind = iota // non-escaping local (possibly with a field/index path)
	akHeap                 // pointer term + pointee type
)

type addr struct {
	kind addrKind
	reg  ssa.Value  // *ssa.Alloc, or a *ssa.FreeVar of a private captured local
	path []pathStep // for akReg
	ptr  string     // for akHeap: pointer term; for elems of scalar slices base/idx are set instead
	typ  types.Type // pointee type
	// scalar slice element
	isElem    bool
	base, idx string
	elemT     types.Type
	// field of heap struct
	isField    bool
	structT    types.Type
	field      *types.Var
	ref        string
	prov       *guardProv
	sharedDecl *SharedDecl
	immGlobal  *ssa.Global
}

type pathStep struct {
	field int // >=0 : struct field index
	idx   string
	typ   types.Type // type of the container at this step
}

func deref(t types.Type) types.Type {
	if p, ok := t.Underlying().(*types.Pointer); ok {
		return p.Elem()
	}
	return t
}

func (g *fnGen) isReg(v ssa.Value) (*ssa.Alloc, bool) {
	a, ok := v.(*ssa.Alloc)
	if ok && regAlloc(a) {
		return a, true
	}
	return nil, false
}

func (g *fnGen) resolveAddr(st *state, v ssa.Value) *addr {
	switch x := v.(type) {
	case *ssa.Alloc:
		if regAlloc(x) {
			return &addr{kind: akReg, reg: x, typ: deref(x.Type())}
		}
	case *ssa.FreeVar:
		if g.privateFV[x] {
			return &addr{kind: akReg, reg: x, typ: deref(x.Type())}
		}
	case *ssa.FieldAddr:
		inner := g.resolveAddr(st, x.X)
		structT := deref(x.X.Type())
		stt := structT.Underlying().(*types.Struct)
		f := stt.Field(x.Field)
		if inner != nil && inner.kind == akReg {
			return &addr{kind: akReg, reg: inner.reg, path: append(append([]pathStep(nil), inner.path...), pathStep{field: x.Field, typ: structT}), typ: f.Type()}
		}
		ref := g.val(st, x.X)
		a := &addr{kind: akHeap, typ: f.Type(), isField: true, structT: structT, field: f, ref: ref}
		if _, isStruct := f.Type().Underlying().(*types.Struct); isStruct {
			a.ptr = g.fieldAddrTerm(structT, x.Field, ref)
		}
		a.prov = g.guardFor(structT, f, ref)
		a.sharedDecl = g.sharedFor(structT, f.Name())
		return a
	case *ssa.IndexAddr:
		switch ct := x.X.Type().Underlying().(type) {
		case *types.Slice:
			sl := g.val(st, x.X)
			idx := g.val(st, x.Index)
			base, off := S("s-base", sl), S("s-off", sl)
			eidx := S("+", off, idx)
			if _, isStruct := ct.Elem().Underlying().(*types.Struct); isStruct {
				return &addr{kind: akHeap, typ: ct.Elem(), ptr: g.elemAddrTerm(ct.Elem(), base, eidx)}
			}
			return &addr{kind: akHeap, typ: ct.Elem(), isElem: true, base: base, idx: eidx, elemT: ct.Elem()}
		case *types.Pointer: // pointer to array
			arrT := ct.Elem().Underlying().(*types.Array)
			inner := g.resolveAddr(st, x.X)
			idx := g.val(st, x.Index)
			if inner != nil && inner.kind == akReg {
				return &addr{kind: akReg, reg: inner.reg, path: append(append([]pathStep(nil), inner.path...), pathStep{field: -1, idx: idx, typ: arrT}), typ: arrT.Elem()}
			}
			base := g.val(st, x.X)
			if _, isStruct := arrT.Elem().Underlying().(*types.Struct); isStruct {
				return &addr{kind: akHeap, typ: arrT.Elem(), ptr: g.elemAddrTerm(arrT.Elem(), base, idx)}
			}
			return &addr{kind: akHeap, typ: arrT.Elem(), isElem: true, base: base, idx: idx, elemT: arrT.Elem()}
		}
	case *ssa.Global:
		a := &addr{kind: akHeap, typ: deref(x.Type()), ptr: g.val(st, x)}
		a.sharedDecl = g.sharedForGlobal(x)
		if _, ok := g.P.immutable[x]; ok && a.sharedDecl == nil {
			a.immGlobal = x
		}
		return a
	}
	// generic pointer value
	if _, ok := v.Type().Underlying().(*types.Pointer); ok {
		return &addr{kind: akHeap, typ: deref(v.Type()), ptr: g.val(st, v)}
	}
	return nil
}

func (g *fnGen) regGet(st *state, a ssa.Value) string {
	if t, ok := st.regs[a]; ok {
		return t
	}
	// not initialised on this path: unconstrained
	t := g.freshConst("undef", g.R.sortOf(deref(a.Type())))
	st.regs[a] = t
	return t
}

func (g *fnGen) readPath(cur string, path []pathStep) string {
	for _, p := range path {
		if p.field >= 0 {
			info := g.R.structInfoOf(p.typ)
			cur = S(info.sels[p.field], cur)
		} else {
			cur = S("select", cur, p.idx)
		}
	}
	return cur
}

func (g *fnGen) writePath(cur string, path []pathStep, val string) string {
	if len(path) == 0 {
		return val
	}
	p := path[0]
	if p.field >= 0 {
		info := g.R.structInfoOf(p.typ)
		var fs []string
		for i := range info.fields {
			if i == p.field {
				fs = append(fs, g.writePath(S(info.sels[i], cur), path[1:], val))
			} else {
				fs = append(fs, S(info.sels[i], cur))
			}
		}
		return S(info.ctor, fs...)
	}
	return S("store", cur, p.idx, g.writePath(S("select", cur, p.idx), path[1:], val))
}

func (g *fnGen) load(st *state, a *addr, instr ssa.Instruction) string {
	switch {
	case a.kind == akReg:
		return g.readPath(g.regGet(st, a.reg), a.path)
	case a.isElem:
		return g.readElem(st, a.elemT, a.base, a.idx)
	case a.isField:
		if a.sharedDecl != nil {
			g.sharedAccessObligation(st, a.sharedDecl, false, instr)
		}
		if a.prov != nil {
			g.guardObligation(st, a.prov, false, instr)
		}
		g.accessGuardObligations(st, a, false, instr)
		if _, isStruct := a.typ.Underlying().(*types.Struct); isStruct {
			return g.loadAt(st, a.typ, a.ptr)
		}
		return g.readField(st, a.structT, a.field, a.ref)
	default:
		if a.sharedDecl != nil {
			g.sharedAccessObligation(st, a.sharedDecl, false, instr)
		}
		if a.immGlobal != nil {
			return g.immutableGlobalValue(a.immGlobal)
		}
		return g.loadAt(st, a.typ, a.ptr)
	}
}

// immutableGlobalValue: the value of a package-level variable that is never
// written after package initialisation is one constant for the whole run.
func (g *fnGen) immutableGlobalValue(x *ssa.Global) string {
	t := deref(x.Type())
	sym := q("gval!" + x.Pkg.Pkg.Name() + "." + x.Name())
	if _, ok := g.R.uninterp[sym]; !ok {
		g.R.declareFun(sym, fmt.Sprintf("(declare-const %s %s)", sym, g.R.sortOf(t)))
		if g.P.immutable[x] == "errnew" {
			g.R.extraAxioms = append(g.R.extraAxioms, fmt.Sprintf("(assert (> (i-tag %s) 0))", sym))
			g.errGlobals = append(g.errGlobals, sym)
		}
		g.assumptions["package-level variable never assigned outside init is treated as a constant: "+x.Pkg.Pkg.Name()+"."+x.Name()] = true
	}
	return sym
}

func (g *fnGen) store(st *state, a *addr, val string, instr ssa.Instruction) {
	switch {
	case a.kind == akReg:
		cur := ""
		if len(a.path) > 0 {
			cur = g.regGet(st, a.reg)
		}
		st.regs[a.reg] = g.define("r", g.R.sortOf(deref(a.reg.Type())), g.writePath(cur, a.path, val))
	case a.isElem:
		g.frameObligation(st, "elem", a.base, g.elemArrayName(a.elemT), instr)
		if g.ct != nil && g.ct.Flags["writes-only-fresh-slices"] {
			// the function builds its results in memory of its own: an element store never lands in a backing
			// array that existed when it was entered (its receiver's or an argument's)
			g.oblige(st, "fresh-write", g.anchor(instr.Pos(), "elem store"), instr.Pos(), "", S(">=", a.base, g.entry.alloc), "element store goes to a backing array allocated by this call")
		}
		g.writeElem(st, a.elemT, a.base, a.idx, val)
	case a.isField:
		if a.sharedDecl != nil {
			g.sharedAccessObligation(st, a.sharedDecl, true, instr)
		}
		if a.prov != nil {
			g.guardObligation(st, a.prov, true, instr)
		}
		g.frameObligation(st, "field", a.ref, g.fieldArrayName(a.structT, a.field), instr)
		g.accessGuardObligations(st, a, true, instr)
		if g.ct != nil && g.ct.Flags["checks-writeguards"] {
			g.writeGuardObligations(st, a, instr)
		}
		if g.ct != nil && g.ct.Flags["readonly-receiver"] && len(g.fn.Params) > 0 && g.fn.Signature.Recv() != nil {
			if _, isPtr := g.fn.Params[0].Type().Underlying().(*types.Pointer); isPtr {
				// a store whose address is reached from the receiver through fields and pointer fields
				// (pe.f, pe.Embedded.f, ...) writes the shared node; a store into an unrelated object of
				// another struct type cannot be the receiver
				goal := ""
				if sti, ok := instr.(*ssa.Store); ok && g.reachedFromReceiver(sti.Addr) {
					goal = "false"
				} else if types.Identical(a.structT, deref(g.fn.Params[0].Type())) {
					goal = Not(S("=", a.ref, g.vals[g.fn.Params[0]]))
				}
				if goal != "" {
					g.oblige(st, "readonly", a.field.Name()+" <- "+g.anchor(instr.Pos(), "store"), instr.Pos(), "", goal, "evaluation does not write the receiver or what its fields point to (an AST node is shared by every evaluation of it)")
				}
			}
		}
		if _, isStruct := a.typ.Underlying().(*types.Struct); isStruct {
			g.storeAt(st, a.typ, a.ptr, val)
			return
		}
		g.writeField(st, a.structT, a.field, a.ref, val)
	default:
		if a.sharedDecl != nil {
			g.sharedAccessObligation(st, a.sharedDecl, true, instr)
		}
		g.frameObligation(st, "cell", a.ptr, g.cellArrayName(a.typ), instr)
		g.storeAt(st, a.typ, a.ptr, val)
	}
}

// ---- values --------------------------------------------------------------------

func (g *fnGen) constTerm(c *ssa.Const) string {
	t := c.Type()
	if c.Value == nil {
		return g.R.zero(t)
	}
	switch c.Value.Kind() {
	case constant.Bool:
		if constant.BoolVal(c.Value) {
			return "true"
		}
		return "false"
	case constant.String:
		return g.R.strConst(constant.StringVal(c.Value))
	case constant.Int:
		if b, ok := t.Underlying().(*types.Basic); ok && b.Info()&types.IsFloat != 0 {
			return constant.ToInt(c.Value).ExactString() + ".0"
		}
		n, ok := new(big.Int).SetString(c.Value.ExactString(), 10)
		if !ok {
			return "0"
		}
		return IntLit(n)
	case constant.Float:
		if b, ok := t.Underlying().(*types.Basic); ok && b.Info()&types.IsInteger != 0 {
			if i := constant.ToInt(c.Value); i.Kind() == constant.Int {
				n, _ := new(big.Int).SetString(i.ExactString(), 10)
				return IntLit(n)
			}
		}
		r, ok := new(big.Rat).SetString(c.Value.ExactString())
		if !ok {
			f, _ := constant.Float64Val(c.Value)
			r = new(big.Rat).SetFloat64(f)
			if r == nil {
				return "0.0"
			}
		}
		num, den := r.Num(), r.Denom()
		s := S("/", new(big.Int).Abs(num).String()+".0", den.String()+".0")
		if num.Sign() < 0 {
			s = S("-", s)
		}
		return s
	}
	return g.R.zero(t)
}

func (g *fnGen) val(st *state, v ssa.Value) string {
	switch x := v.(type) {
	case *ssa.Const:
		return g.constTerm(x)
	case *ssa.Global:
		sym := q("glob!" + x.Pkg.Pkg.Name() + "." + x.Name())
		if _, ok := g.R.uninterp[sym]; !ok {
			g.R.declareFun(sym, fmt.Sprintf("(declare-const %s Int)", sym))
			g.R.extraAxioms = append(g.R.extraAxioms, fmt.Sprintf("(assert (< %s (- 1000)))", sym))
			g.globals = append(g.globals, sym)
		}
		return sym
	case *ssa.Function:
		sym := q("func!" + x.String())
		g.R.declareFun(sym, fmt.Sprintf("(declare-const %s Int)", sym))
		return sym
	case *ssa.Builtin:
		return "0"
	case *ssa.Phi:
		if t, ok := st.regs[x]; ok {
			return t
		}
	case *ssa.FieldAddr:
		if _, isReg := rootAlloc(x.X); !isReg {
			structT := deref(x.X.Type())
			f := structT.Underlying().(*types.Struct).Field(x.Field)
			if _, isStruct := f.Type().Underlying().(*types.Struct); !isStruct {
				g.abstracted["address of scalar field escapes: "+f.Name()] = true
			}
			return g.fieldAddrTerm(structT, x.Field, g.val(st, x.X))
		}
	case *ssa.IndexAddr:
		if sl, ok := x.X.Type().Underlying().(*types.Slice); ok {
			xv := g.val(st, x.X)
			return g.elemAddrTerm(sl.Elem(), S("s-base", xv), S("+", S("s-off", xv), g.val(st, x.Index)))
		}
	case *ssa.Alloc:
		if regAlloc(x) {
			// address of a register used as a value: should not happen
			g.abstracted["address of non-escaping local used as value: "+x.Comment] = true
			return "0"
		}
	}
	if t, ok := g.vals[v]; ok {
		return t
	}
	// value defined in a block not yet processed (irreducible flow / previous iteration)
	t := g.freshConst("unk", g.R.sortOf(v.Type()))
	g.vals[v] = t
	g.abstracted["value used before definition in DAG order: "+v.Name()] = true
	return t
}

// typeFacts assumes the facts the static type gives about a freshly introduced value.
func (g *fnGen) typeFacts(st *state, term string, t types.Type) {
	switch u := t.Underlying().(type) {
	case *types.Basic:
		if u.Info()&types.IsInteger != 0 {
			if lo, hi, ok := intRange(u); ok {
				g.assume(st, And(S("<=", IntLit(lo), term), S("<=", term, IntLit(hi))))
			}
		}
		if u.Info()&types.IsString != 0 {
			g.assumptions["no string or slice backing array exceeds 2^40 bytes"] = true
			// ground instance of the length axiom (keeps the quantifier-free relaxation useful)
			g.assume(st, And(S("<=", "0", S("strlen", term)), S("<=", S("strlen", term), "1099511627776")))
		}
	case *types.Slice:
		g.assume(st, And(S("<=", "0", S("s-off", term)), S("<=", "0", S("s-len", term)), S("<=", S("s-len", term), S("s-cap", term)),
			S("<=", "0", S("s-base", term)), S("<", S("s-base", term), st.alloc), Imp(S("=", S("s-base", term), "0"), S("=", S("s-cap", term), "0")),
			S("<=", S("*", fmt.Sprint(max64(1, g.P.sizes.Sizeof(u.Elem()))), S("s-cap", term)), "1099511627776")))
	case *types.Pointer, *types.Map, *types.Chan:
		g.assume(st, And(S("<", term, st.alloc)))
		if _, isPtr := u.(*types.Pointer); !isPtr {
			g.assume(st, S("<=", "0", term))
		}
	case *types.Interface:
		if u.NumMethods() > 0 {
			g.assume(st, Or(S("=", S("i-tag", term), "0"), S(g.R.implSym(t), S("i-tag", term))))
		}
		g.assume(st, And(S(">=", S("i-tag", term), "0"), S("<", S("i-val", term), st.alloc), Imp(S("=", S("i-tag", term), "0"), S("=", S("i-val", term), "0"))))
	case *types.Struct:
		info := g.R.structInfoOf(t)
		for i, f := range info.fields {
			g.typeFacts(st, S(info.sels[i], term), f.Type())
		}
	}
}

func isUnsigned(t types.Type) bool {
	b, ok := t.Underlying().(*types.Basic)
	return ok && b.Info()&types.IsUnsigned != 0
}
func isString(t types.Type) bool {
	b, ok := t.Underlying().(*types.Basic)
	return ok && b.Info()&types.IsString != 0
}
func isFloat(t types.Type) bool {
	b, ok := t.Underlying().(*types.Basic)
	return ok && b.Info()&types.IsFloat != 0
}
func isInteger(t types.Type) bool {
	b, ok := t.Underlying().(*types.Basic)
	return ok && b.Info()&types.IsInteger != 0
}
func isBool(t types.Type) bool {
	b, ok := t.Underlying().(*types.Basic)
	return ok && b.Info()&types.IsBoolean != 0
}

func (g *fnGen) binop(st *state, op token.Token, x, y string, tx, ty types.Type, instr *ssa.BinOp) string {
	switch op {
	case token.EQL:
		return S("=", x, y)
	case token.NEQ:
		return S("not", S("=", x, y))
	}
	if isString(tx) {
		switch op {
		case token.ADD:
			return S("strcat", x, y)
		case token.LSS, token.LEQ, token.GTR, token.GEQ:
			sym := q("strless")
			g.R.declareFun(sym, "(declare-fun |strless| (Int Int) Bool)")
			// strictly less implies different: the ordering is irreflexive without a quantified axiom
			less := func(l, r string) string { return S("and", S("not", S("=", l, r)), S(sym, l, r)) }
			switch op {
			case token.LSS:
				return less(x, y)
			case token.GTR:
				return less(y, x)
			case token.LEQ:
				return S("not", less(y, x))
			default:
				return S("not", less(x, y))
			}
		}
	}
	if isFloat(tx) {
		switch op {
		case token.ADD:
			return S("+", x, y)
		case token.SUB:
			return S("-", x, y)
		case token.MUL:
			return S("*", x, y)
		case token.QUO:
			return S("/", x, y)
		case token.LSS:
			return S("<", x, y)
		case token.LEQ:
			return S("<=", x, y)
		case token.GTR:
			return S(">", x, y)
		case token.GEQ:
			return S(">=", x, y)
		}
	}
	if isBool(tx) {
		switch op {
		case token.AND, token.LAND:
			return S("and", x, y)
		case token.OR, token.LOR:
			return S("or", x, y)
		}
	}
	wrapRes := func(t string) string {
		// unsigned arithmetic wraps: model subtraction/addition results through wrap
		if b, ok := tx.Underlying().(*types.Basic); ok && b.Info()&types.IsUnsigned != 0 {
			lo, hi, _ := intRange(b)
			return S("wrap", t, IntLit(lo), IntLit(hi))
		}
		return t
	}
	overflow := func(t string) {
		if instr == nil {
			return
		}
		if b, ok := tx.Underlying().(*types.Basic); ok && b.Info()&types.IsInteger != 0 && b.Info()&types.IsUnsigned == 0 {
			if lo, hi, ok := intRange(b); ok {
				g.oblige(st, "overflow", g.anchor(instr.Pos(), "arith"), instr.Pos(), "", And(S("<=", IntLit(lo), t), S("<=", t, IntLit(hi))), "signed integer arithmetic does not overflow (the encoding treats it as mathematical)")
			}
		}
	}
	switch op {
	case token.ADD:
		overflow(S("+", x, y))
		return wrapRes(S("+", x, y))
	case token.SUB:
		overflow(S("-", x, y))
		return wrapRes(S("-", x, y))
	case token.MUL:
		overflow(S("*", x, y))
		return wrapRes(S("*", x, y))
	case token.QUO:
		if instr != nil {
			g.oblige(st, "div", g.anchor(instr.Pos(), "div"), instr.Pos(), "", S("not", S("=", y, "0")), "integer division by zero")
		}
		return S("godiv", x, y)
	case token.REM:
		if instr != nil {
			g.oblige(st, "div", g.anchor(instr.Pos(), "rem"), instr.Pos(), "", S("not", S("=", y, "0")), "integer remainder by zero")
		}
		return S("gorem", x, y)
	case token.LSS:
		return S("<", x, y)
	case token.LEQ:
		return S("<=", x, y)
	case token.GTR:
		return S(">", x, y)
	case token.GEQ:
		return S(">=", x, y)
	case token.AND:
		return S("bvand", x, y)
	case token.OR:
		return S("bvor", x, y)
	case token.XOR:
		return S("bvxor", x, y)
	case token.SHL:
		return S("bvshl", x, y)
	case token.SHR:
		return S("bvshr", x, y)
	case token.AND_NOT:
		return S("bvandnot", x, y)
	}
	g.abstracted["binop "+op.String()] = true
	return g.freshConst("binop", g.R.sortOf(tx))
}

func (g *fnGen) convert(st *state, x string, from, to types.Type) string {
	fu, tu := from.Underlying(), to.Underlying()
	fb, fok := fu.(*types.Basic)
	tb, tok := tu.(*types.Basic)
	if fok && tok {
		switch {
		case fb.Info()&types.IsInteger != 0 && tb.Info()&types.IsInteger != 0:
			flo, fhi, ok1 := intRange(fb)
			tlo, thi, ok2 := intRange(tb)
			if ok1 && ok2 && flo.Cmp(tlo) >= 0 && fhi.Cmp(thi) <= 0 {
				return x
			}
			if ok2 {
				return S("wrap", x, IntLit(tlo), IntLit(thi))
			}
			return x
		case fb.Info()&types.IsInteger != 0 && tb.Info()&types.IsFloat != 0:
			return S("to_real", x)
		case fb.Info()&types.IsFloat != 0 && tb.Info()&types.IsInteger != 0:
			if lo, hi, ok := intRange(tb); ok {
				return S("wrap", S("f2i", x), IntLit(lo), IntLit(hi))
			}
			return S("f2i", x)
		case fb.Info()&types.IsFloat != 0 && tb.Info()&types.IsFloat != 0:
			return x
		case fb.Info()&types.IsString != 0 && tb.Info()&types.IsString != 0:
			return x
		case fb.Info()&types.IsInteger != 0 && tb.Info()&types.IsString != 0:
			return S("rune2str", x)
		case fb.Kind() == types.UnsafePointer || tb.Kind() == types.UnsafePointer:
			return x
		}
	}
	if fok && fb.Info()&types.IsString != 0 {
		if _, ok := tu.(*types.Slice); ok {
			r := g.freshConst("bytes", "Slice")
			g.typeFacts(st, r, to)
			g.assume(st, S("=", S("s-len", r), S("strlen", x)))
			return r
		}
	}
	if tok && tb.Info()&types.IsString != 0 {
		if _, ok := fu.(*types.Slice); ok {
			r := g.freshConst("str", "Int")
			g.assume(st, S("=", S("strlen", r), S("s-len", x)))
			return r
		}
	}
	if g.R.sortOf(from) == g.R.sortOf(to) {
		return x
	}
	g.abstracted["conversion "+from.String()+" -> "+to.String()] = true
	r := g.freshConst("conv", g.R.sortOf(to))
	g.typeFacts(st, r, to)
	return r
}

// ---- source anchors --------------------------------------------------------------

func (g *fnGen) buildPosIndex() {
	g.posText = map[token.Pos]string{}
	g.sortedKeyRanges = map[token.Pos]bool{}
	syn := g.fn.Syntax()
	if syn == nil {
		return
	}
	fset := g.P.prog.Fset
	txt := func(n ast.Node) string { return g.P.nodeText(fset, n) }
	type callSite struct {
		pos  token.Pos
		text string
	}
	var calls []callSite
	defer func() {
		sort.Slice(calls, func(i, j int) bool { return calls[i].pos < calls[j].pos })
		cnt := map[string]int{}
		for _, c := range calls {
			cnt[c.text]++
			g.callPosOrd[c.pos] = cnt[c.text]
		}
	}()
	ast.Inspect(syn, func(n ast.Node) bool {
		if fl, ok := n.(*ast.FuncLit); ok && n != syn {
			_ = fl
			return false // nested closures are separate functions
		}
		switch e := n.(type) {
		case *ast.BlockStmt:
			g.markSortedKeyRanges(e.List)
		case *ast.CaseClause:
			g.markSortedKeyRanges(e.Body)
		case *ast.IndexExpr:
			g.posText[e.Lbrack] = txt(e)
		case *ast.SliceExpr:
			g.posText[e.Lbrack] = txt(e)
		case *ast.TypeAssertExpr:
			g.posText[e.Lparen] = txt(e)
		case *ast.CallExpr:
			g.posText[e.Lparen] = txt(e.Fun)
			calls = append(calls, callSite{e.Lparen, txt(e.Fun)})
		case *ast.BinaryExpr:
			g.posText[e.OpPos] = txt(e)
		case *ast.SelectorExpr:
			if _, ok := g.posText[e.Sel.Pos()]; !ok {
				g.posText[e.Sel.Pos()] = txt(e)
			}
		case *ast.StarExpr:
			g.posText[e.Star] = txt(e)
		case *ast.SendStmt:
			g.posText[e.Arrow] = txt(e)
		case *ast.AssignStmt:
			if _, ok := g.posText[e.TokPos]; !ok {
				g.posText[e.TokPos] = txt(e.Lhs[0])
			}
		}
		return true
	})
}

// markSortedKeyRanges recognises, syntactically, the one map iteration whose result does not depend on the
// iteration order: `for k := range m { keys = append(keys, k) }` immediately followed by sort.Strings(keys) /
// sort.Ints(keys) / slices.Sort(keys). The loop only adds the keys to one slice (no value, no other statement)
// and the slice is put into a total order before anything else happens, so the range is not an obligation.
func (g *fnGen) markSortedKeyRanges(stmts []ast.Stmt) {
	for i := 0; i+1 < len(stmts); i++ {
		rs, ok := stmts[i].(*ast.RangeStmt)
		if !ok || rs.Body == nil || len(rs.Body.List) != 1 {
			continue
		}
		key, ok := rs.Key.(*ast.Ident)
		if !ok || key.Name == "_" {
			continue
		}
		if v, ok := rs.Value.(*ast.Ident); rs.Value != nil && (!ok || v.Name != "_") {
			continue
		}
		as, ok := rs.Body.List[0].(*ast.AssignStmt)
		if !ok || len(as.Lhs) != 1 || len(as.Rhs) != 1 || as.Tok != token.ASSIGN {
			continue
		}
		dst, ok := as.Lhs[0].(*ast.Ident)
		call, ok2 := as.Rhs[0].(*ast.CallExpr)
		if !ok || !ok2 || len(call.Args) != 2 || call.Ellipsis.IsValid() {
			continue
		}
		fn, ok := call.Fun.(*ast.Ident)
		a0, ok0 := call.Args[0].(*ast.Ident)
		a1, ok1 := call.Args[1].(*ast.Ident)
		if !ok || fn.Name != "append" || !ok0 || !ok1 || a0.Name != dst.Name || a1.Name != key.Name {
			continue
		}
		es, ok := stmts[i+1].(*ast.ExprStmt)
		if !ok {
			continue
		}
		sc, ok := es.X.(*ast.CallExpr)
		if !ok || len(sc.Args) != 1 {
			continue
		}
		sel, ok := sc.Fun.(*ast.SelectorExpr)
		pk, ok2 := sel.X.(*ast.Ident)
		arg, ok3 := sc.Args[0].(*ast.Ident)
		if !ok || !ok2 || !ok3 || arg.Name != dst.Name {
			continue
		}
		if (pk.Name == "sort" && (sel.Sel.Name == "Strings" || sel.Sel.Name == "Ints" || sel.Sel.Name == "Float64s")) || (pk.Name == "slices" && sel.Sel.Name == "Sort") {
			g.sortedKeyRanges[rs.For] = true
		}
	}
}

func (g *fnGen) anchor(pos token.Pos, fallback string) string {
	if t, ok := g.posText[pos]; ok {
		return t
	}
	return fallback
}

// ---- loops ----------------------------------------------------------------------

func (g *fnGen) findLoops() {
	g.loops = map[*ssa.BasicBlock]*loopInfo{}
	g.inLoops = map[*ssa.BasicBlock][]*loopInfo{}
	for _, b := range g.fn.Blocks {
		for _, s := range b.Succs {
			if s.Dominates(b) { // back edge b -> s
				li := g.loops[s]
				if li == nil {
					li = &loopInfo{header: s, blocks: map[*ssa.BasicBlock]bool{s: true}}
					g.loops[s] = li
				}
				// collect natural loop body
				stack := []*ssa.BasicBlock{b}
				for len(stack) > 0 {
					n := stack[len(stack)-1]
					stack = stack[:len(stack)-1]
					if li.blocks[n] {
						continue
					}
					li.blocks[n] = true
					stack = append(stack, n.Preds...)
				}
			}
		}
	}
	var hs []*ssa.BasicBlock
	for h := range g.loops {
		hs = append(hs, h)
	}
	sort.Slice(hs, func(i, j int) bool { return hs[i].Index < hs[j].Index })
	for i, h := range hs {
		li := g.loops[h]
		li.ord = i + 1
		if g.ct != nil {
			li.spec = g.ct.Loops[li.ord]
		}
		for b := range li.blocks {
			g.inLoops[b] = append(g.inLoops[b], li)
		}
	}
	if g.ct != nil {
		for n := range g.ct.Loops {
			if n < 1 || n > len(hs) {
				g.stale = append(g.stale, fmt.Sprintf("loop %d does not exist (function has %d loops)", n, len(hs)))
			}
		}
	}
}

func isBackEdge(from, to *ssa.BasicBlock) bool { return to.Dominates(from) }

// ---- driver -----------------------------------------------------------------------

func (g *fnGen) topoOrder() []*ssa.BasicBlock {
	// reverse post-order ignoring back edges
	seen := map[*ssa.BasicBlock]bool{}
	var post []*ssa.BasicBlock
	var dfs func(b *ssa.BasicBlock)
	dfs = func(b *ssa.BasicBlock) {
		seen[b] = true
		for i := len(b.Succs) - 1; i >= 0; i-- {
			s := b.Succs[i]
			if !seen[s] && !isBackEdge(b, s) {
				dfs(s)
			}
		}
		post = append(post, b)
	}
	dfs(g.fn.Blocks[0])
	for i, j := 0, len(post)-1; i < j; i, j = i+1, j-1 {
		post[i], post[j] = post[j], post[i]
	}
	return post
}

func (g *fnGen) generate() {
	fn := g.fn
	g.buildPosIndex()
	g.findLoops()
	// entry state
	ep := g.newEpoch()
	ep.id = 0
	g.epochs = 0
	st := &state{reach: "true", regs: map[ssa.Value]string{}, heap: map[string]string{}, ep: ep, ghost: map[string]string{}}
	st.alloc = g.freshConst("ALLOC", "Int")
	g.assert(S(">", st.alloc, "0"))
	g.frameEntryAlloc = st.alloc
	g.paramVals = map[string]string{}
	g.paramTypes = map[string]types.Type{}
	for pi, p := range fn.Params {
		sym := q("p!" + p.Name())
		if p.Name() == "_" {
			// several blank parameters of different sorts would share one symbol
			sym = q(fmt.Sprintf("p!_%d", pi))
		}
		g.declare(sym, g.R.sortOf(p.Type()))
		g.vals[p] = sym
		if p.Name() != "_" {
			g.paramVals[p.Name()] = sym
			g.paramTypes[p.Name()] = p.Type()
		}
		g.typeFacts(st, sym, p.Type())
	}
	g.privateFV = map[*ssa.FreeVar]bool{}
	for i, fv := range fn.FreeVars {
		if g.freeVarIsPrivate(i) {
			// captured local that only this closure (deferred by the parent) can reach: a register
			g.privateFV[fv] = true
			pt := deref(fv.Type())
			sym := q("fvcell!" + fv.Name())
			g.declare(sym, g.R.sortOf(pt))
			g.typeFacts(st, sym, pt)
			st.regs[fv] = sym
			g.vals[fv] = "0"
			continue
		}
		sym := q("fv!" + fv.Name())
		g.declare(sym, g.R.sortOf(fv.Type()))
		g.vals[fv] = sym
		g.typeFacts(st, sym, fv.Type())
	}
	// receiver of a method is non-nil by convention (calling a method through a nil pointer is the caller's bug);
	// recorded as an assumption
	if fn.Signature.Recv() != nil && len(fn.Params) > 0 {
		if _, ok := fn.Params[0].Type().Underlying().(*types.Pointer); ok {
			g.assert(S(">", g.vals[fn.Params[0]], "0"))
			g.assumptions["method receivers are non-nil"] = true
		}
	}
	g.entry = st.clone()
	g.initGhosts(st)
	g.emitAxioms()
	// preconditions
	if g.ct != nil {
		for _, c := range g.ct.Requires {
			t, err := g.evalBool(c.E, &evalEnv{g: g, cur: st, old: g.entry, mode: "pre"})
			if err != nil {
				g.stale = append(g.stale, fmt.Sprintf("requires %q: %v", c.Src, err))
				continue
			}
			g.assert(t)
		}
	}
	// vacuity guard: the precondition must be satisfiable
	cov := g.oblige(st, "cover", "precondition", fn.Pos(), "", "true", "precondition + type facts + axioms are satisfiable")
	cov.Cover = true

	g.outStates = map[*ssa.BasicBlock]*state{}
	g.edgeConds = map[[2]int]string{}
	order := g.topoOrder()
	for _, b := range order {
		var bst *state
		if b.Index == 0 {
			bst = st
		} else {
			bst = g.joinPreds(b)
			if bst == nil {
				continue // unreachable
			}
		}
		if li := g.loops[b]; li != nil {
			bst = g.enterLoop(li, bst)
		}
		g.curBlock = b
		g.execBlock(b, bst)
	}
	for _, h := range g.hooksUnused() {
		g.stale = append(g.stale, fmt.Sprintf("hook %s call %s#%d matched no call site", h.When, h.Callee, h.Ord))
	}
}

type inEdge struct {
	from *ssa.BasicBlock
	st   *state
	cond string
}

func (g *fnGen) inEdges(b *ssa.BasicBlock, back bool) []inEdge {
	var es []inEdge
	for _, p := range b.Preds {
		if isBackEdge(p, b) != back {
			continue
		}
		ost := g.outStates[p]
		if ost == nil {
			continue
		}
		// a pred may have b as both successors
		for si, s := range p.Succs {
			if s != b {
				continue
			}
			c := g.edgeConds[[2]int{p.Index, si}]
			if c == "" {
				continue
			}
			es = append(es, inEdge{p, ost, c})
		}
	}
	return es
}

// stateAtEdge: pred's out state specialised to the edge (phi values of b set)
func (g *fnGen) stateAtEdge(e inEdge, b *ssa.BasicBlock) *state {
	s := e.st.clone()
	s.reach = e.cond
	predIdx := -1
	for i, p := range b.Preds {
		if p == e.from {
			predIdx = i
			break
		}
	}
	for _, ins := range b.Instrs {
		phi, ok := ins.(*ssa.Phi)
		if !ok {
			break
		}
		if predIdx >= 0 {
			s.regs[phi] = g.val(e.st, phi.Edges[predIdx])
		}
	}
	return s
}

func (g *fnGen) joinPreds(b *ssa.BasicBlock) *state {
	edges := g.inEdges(b, false)
	if len(edges) == 0 {
		return nil
	}
	var sts []*state
	for _, e := range edges {
		sts = append(sts, g.stateAtEdge(e, b))
	}
	return g.joinStates(sts, fmt.Sprintf("b%d", b.Index))
}

func (g *fnGen) joinStates(sts []*state, tag string) *state {
	if len(sts) == 1 {
		s := sts[0]
		r := g.freshConst("reach!"+tag, "Bool")
		g.assert(S("=", r, s.reach))
		s.reach = r
		return s
	}
	out := &state{regs: map[ssa.Value]string{}, heap: map[string]string{}, ghost: map[string]string{}}
	r := g.freshConst("reach!"+tag, "Bool")
	var conds []string
	for _, s := range sts {
		conds = append(conds, s.reach)
	}
	g.assert(S("=", r, Or(conds...)))
	out.reach = r
	// registers
	keys := map[ssa.Value]bool{}
	for _, s := range sts {
		for k := range s.regs {
			keys[k] = true
		}
	}
	var ks []ssa.Value
	for k := range keys {
		ks = append(ks, k)
	}
	sort.Slice(ks, func(i, j int) bool { return ks[i].Name() < ks[j].Name() })
	for _, k := range ks {
		same := true
		first, ok0 := sts[0].regs[k]
		for _, s := range sts[1:] {
			if t, ok := s.regs[k]; !ok || !ok0 || t != first {
				same = false
			}
		}
		if same && ok0 {
			out.regs[k] = first
			continue
		}
		var srt string
		switch kk := k.(type) {
		case *ssa.Alloc:
			srt = g.R.sortOf(deref(kk.Type()))
		case *ssa.Range:
			srt = "Int"
		case *ssa.FreeVar:
			srt = g.R.sortOf(deref(kk.Type()))
		default:
			srt = g.R.sortOf(k.Type())
		}
		j := g.freshConst("j!"+k.Name(), srt)
		for _, s := range sts {
			if t, ok := s.regs[k]; ok {
				g.assert(Imp(s.reach, S("=", j, t)))
			}
		}
		out.regs[k] = j
	}
	// ghost vars
	for k := range sts[0].ghost {
		same := true
		for _, s := range sts[1:] {
			if s.ghost[k] != sts[0].ghost[k] {
				same = false
			}
		}
		if same {
			out.ghost[k] = sts[0].ghost[k]
			continue
		}
		j := g.freshConst("jg!"+k, g.R.sortOf(g.ghostTypes[k]))
		for _, s := range sts {
			g.assert(Imp(s.reach, S("=", j, s.ghost[k])))
		}
		out.ghost[k] = j
	}
	// alloc watermark
	sameA := true
	for _, s := range sts[1:] {
		if s.alloc != sts[0].alloc {
			sameA = false
		}
	}
	if sameA {
		out.alloc = sts[0].alloc
	} else {
		j := g.freshConst("ALLOC", "Int")
		for _, s := range sts {
			g.assert(Imp(s.reach, S("=", j, s.alloc)))
		}
		out.alloc = j
	}
	// heap: same epoch => per-array join; different epochs => new epoch with lazy joins
	sameEp := true
	for _, s := range sts[1:] {
		if s.ep != sts[0].ep {
			sameEp = false
		}
	}
	if sameEp {
		out.ep = sts[0].ep
		names := map[string]bool{}
		for _, s := range sts {
			for k := range s.heap {
				names[k] = true
			}
		}
		var ns []string
		for k := range names {
			ns = append(ns, k)
		}
		sort.Strings(ns)
		for _, k := range ns {
			same := true
			first := ""
			for i, s := range sts {
				t, ok := s.heap[k]
				if !ok {
					t = g.epochArray(s.ep, k)
				}
				if i == 0 {
					first = t
				} else if t != first {
					same = false
				}
			}
			if same {
				out.heap[k] = first
				continue
			}
			j := g.freshConst(k, g.heapSorts[k])
			for _, s := range sts {
				t, ok := s.heap[k]
				if !ok {
					t = g.epochArray(s.ep, k)
				}
				g.assert(Imp(s.reach, S("=", j, t)))
			}
			out.heap[k] = j
		}
	} else {
		ep := g.newEpoch()
		for _, s := range sts {
			ep.parents = append(ep.parents, epochParent{s.reach, s})
		}
		out.ep = ep
	}
	for _, s := range sts {
		if s.lockSnap != nil {
			out.lockSnap = s.lockSnap
			break
		}
	}
	// defers: take the longest list (defers in branches are rare)
	for _, s := range sts {
		if len(s.defers) > len(out.defers) {
			out.defers = s.defers
		}
	}
	return out
}

// ---- loops: entry / back edge --------------------------------------------------------

func (g *fnGen) loopModifies(li *loopInfo) {
	li.modRegs = map[ssa.Value]bool{}
	li.modHeap = map[string]bool{}
	li.modGhost = map[string]bool{}
	for _, ins := range li.header.Instrs {
		if phi, ok := ins.(*ssa.Phi); ok {
			li.modRegs[phi] = true
		}
	}
	var bs []*ssa.BasicBlock
	for b := range li.blocks {
		bs = append(bs, b)
	}
	sort.Slice(bs, func(i, j int) bool { return bs[i].Index < bs[j].Index })
	for _, b := range bs {
		for _, ins := range b.Instrs {
			g.instrEffects(ins, li)
		}
	}
}

func rootAlloc(v ssa.Value) (*ssa.Alloc, bool) {
	for {
		switch x := v.(type) {
		case *ssa.Alloc:
			return x, regAlloc(x)
		case *ssa.FieldAddr:
			v = x.X
		case *ssa.IndexAddr:
			if _, ok := x.X.Type().Underlying().(*types.Pointer); ok {
				v = x.X
			} else {
				return nil, false
			}
		default:
			return nil, false
		}
	}
}

func (g *fnGen) storeTargets(addrV ssa.Value, li *loopInfo) {
	if fv, ok := addrV.(*ssa.FreeVar); ok && g.privateFV[fv] {
		li.modRegs[fv] = true
		return
	}
	if a, ok := rootAlloc(addrV); ok {
		li.modRegs[a] = true
		return
	}
	switch x := addrV.(type) {
	case *ssa.FieldAddr:
		structT := deref(x.X.Type())
		f := structT.Underlying().(*types.Struct).Field(x.Field)
		if _, isStruct := f.Type().Underlying().(*types.Struct); isStruct {
			g.structArrays(f.Type(), li)
		} else {
			g.modArr(li, g.fieldArrayName(structT, f), "(Array Int "+g.R.sortOf(f.Type())+")")
		}
	case *ssa.IndexAddr:
		var elem types.Type
		switch ct := x.X.Type().Underlying().(type) {
		case *types.Slice:
			elem = ct.Elem()
		case *types.Pointer:
			elem = ct.Elem().Underlying().(*types.Array).Elem()
		}
		if elem != nil {
			if _, isStruct := elem.Underlying().(*types.Struct); isStruct {
				g.structArrays(elem, li)
			} else {
				g.modArr(li, g.elemArrayName(elem), "(Array Int (Array Int "+g.R.sortOf(elem)+"))")
			}
		}
	default:
		t := deref(addrV.Type())
		if _, isStruct := t.Underlying().(*types.Struct); isStruct {
			g.structArrays(t, li)
		} else {
			g.modArr(li, g.cellArrayName(t), "(Array Int "+g.R.sortOf(t)+")")
		}
	}
}

func (g *fnGen) structArrays(t types.Type, li *loopInfo) {
	st := t.Underlying().(*types.Struct)
	for i := 0; i < st.NumFields(); i++ {
		f := st.Field(i)
		if _, isStruct := f.Type().Underlying().(*types.Struct); isStruct {
			g.structArrays(f.Type(), li)
		} else {
			g.modArr(li, g.fieldArrayName(t, f), "(Array Int "+g.R.sortOf(f.Type())+")")
		}
	}
}

func (g *fnGen) instrEffects(ins ssa.Instruction, li *loopInfo) {
	switch x := ins.(type) {
	case *ssa.Store:
		g.storeTargets(x.Addr, li)
	case *ssa.MapUpdate:
		mt := x.Map.Type().Underlying().(*types.Map)
		g.mapArrays(mt, func(n, srt string) { g.modArr(li, n, srt) })
	case *ssa.Alloc:
		if !regAlloc(x) {
			li.modAlloc = true
		}
	case *ssa.MakeSlice, *ssa.MakeMap, *ssa.MakeChan, *ssa.MakeClosure, *ssa.MakeInterface:
		li.modAlloc = true
	case *ssa.Next:
		li.modRegs[x.Iter] = true
	case *ssa.Send:
		g.modArr(li, "G!chansends", "(Array Int Int)")
		g.modArr(li, "G!chanlastsent", "(Array Int Iface)")
	case *ssa.UnOp:
		if x.Op == token.ARROW {
			g.modArr(li, "G!chanrecvs", "(Array Int Int)")
			g.modArr(li, "G!chanlastrecv", "(Array Int Iface)")
			g.modArr(li, "G!chanlastok", "(Array Int Bool)")
		}
	case *ssa.Call, *ssa.Defer, *ssa.Go:
		li.modAlloc = true
		var cc *ssa.CallCommon
		switch y := x.(type) {
		case *ssa.Call:
			cc = y.Common()
		case *ssa.Defer:
			cc = y.Common()
		case *ssa.Go:
			cc = y.Common()
		}
		g.callEffects(cc, ins, li)
	}
}

func (g *fnGen) enterLoop(li *loopInfo, entry *state) *state {
	g.loopModifies(li)
	name := fmt.Sprintf("loop%d", li.ord)
	// invariants on entry
	if li.spec != nil {
		for i, c := range li.spec.Invariants {
			t, err := g.evalBool(c.E, &evalEnv{g: g, cur: entry, old: g.entry, mode: "inv", loop: li})
			if err != nil {
				g.stale = append(g.stale, fmt.Sprintf("loop %d invariant %q: %v", li.ord, c.Src, err))
				continue
			}
			g.oblige(entry, "invariant-entry", fmt.Sprintf("%s:%s", name, clauseLabel(c, i)), li.header.Instrs[0].Pos(), "", t, "loop invariant holds on entry: "+c.Src)
		}
	}
	// havoc
	st := entry.clone()
	var rk []ssa.Value
	for k := range li.modRegs {
		rk = append(rk, k)
	}
	sort.Slice(rk, func(i, j int) bool { return rk[i].Name() < rk[j].Name() })
	for _, k := range rk {
		if _, ok := st.regs[k]; !ok {
			if _, isPhi := k.(*ssa.Phi); !isPhi {
				continue // alloc executed inside the loop
			}
		}
		var t types.Type
		switch kk := k.(type) {
		case *ssa.Alloc:
			t = deref(kk.Type())
		case *ssa.Range:
			st.regs[k] = g.freshConst("h!iter", "Int")
			g.assume(st, S(">=", st.regs[k], "0"))
			continue
		case *ssa.FreeVar:
			t = deref(kk.Type())
		default:
			t = k.Type()
		}
		h := g.freshConst("h!"+k.Name(), g.R.sortOf(t))
		st.regs[k] = h
		g.typeFacts(st, h, t)
		// built-in invariant of range-index loops: the hidden index starts at -1 and only grows
		if phi, ok := k.(*ssa.Phi); ok && strings.HasPrefix(li.header.Comment, "rangeindex") && isInteger(phi.Type()) {
			g.assume(st, S(">=", h, "(- 1)"))
		}
		if al, ok := k.(*ssa.Alloc); ok && al.Comment == "rangeindex" {
			g.assume(st, S(">=", h, "(- 1)"))
		}
	}
	if li.modAll {
		g.havocAll(st)
	} else {
		var hk []string
		for k := range li.modHeap {
			hk = append(hk, k)
		}
		sort.Strings(hk)
		for _, k := range hk {
			g.havocArray(st, k)
		}
	}
	var gk []string
	for k := range li.modGhost {
		gk = append(gk, k)
	}
	sort.Strings(gk)
	for _, k := range gk {
		if _, ok := st.ghost[k]; ok {
			st.ghost[k] = g.freshConst("hg!"+k, g.R.sortOf(g.ghostTypes[k]))
			g.typeFacts(st, st.ghost[k], g.ghostTypes[k])
		}
	}
	if li.modAlloc || li.modAll {
		na := g.freshConst("ALLOC", "Int")
		g.assume(st, S(">=", na, st.alloc))
		st.alloc = na
	}
	// assume invariants
	if li.spec != nil {
		for _, c := range li.spec.Invariants {
			t, err := g.evalBool(c.E, &evalEnv{g: g, cur: st, old: g.entry, mode: "inv", loop: li})
			if err == nil {
				g.assume(st, t)
			}
		}
		if c := li.spec.Decreases; c != nil {
			t, _, err := g.eval(c.E, &evalEnv{g: g, cur: st, old: g.entry, mode: "inv", loop: li})
			if err != nil {
				g.stale = append(g.stale, fmt.Sprintf("loop %d decreases %q: %v", li.ord, c.Src, err))
			} else {
				li.entryDec = g.define("dec", "Int", t)
			}
		}
	}
	li.headState = st
	return st
}

func (g *fnGen) registerArray(name, srt string) {
	if _, ok := g.heapSorts[name]; !ok {
		g.heapSorts[name] = srt
		g.heapOrder = append(g.heapOrder, name)
	}
}

func (g *fnGen) modArr(li *loopInfo, name, srt string) {
	g.registerArray(name, srt)
	li.modHeap[name] = true
}

func clauseLabel(c Clause, i int) string {
	if c.Label != "" {
		return c.Label
	}
	return fmt.Sprintf("#%d", i+1)
}

func (g *fnGen) backEdge(li *loopInfo, st *state, pos token.Pos) {
	name := fmt.Sprintf("loop%d", li.ord)
	if li.spec == nil {
		return
	}
	for i, c := range li.spec.Invariants {
		t, err := g.evalBool(c.E, &evalEnv{g: g, cur: st, old: g.entry, mode: "inv", loop: li})
		if err != nil {
			continue
		}
		g.oblige(st, "invariant-preserved", fmt.Sprintf("%s:%s", name, clauseLabel(c, i)), li.header.Instrs[0].Pos(), "", t, "loop invariant preserved: "+c.Src)
	}
	if c := li.spec.Decreases; c != nil && li.entryDec != "" {
		t, _, err := g.eval(c.E, &evalEnv{g: g, cur: st, old: g.entry, mode: "inv", loop: li})
		if err == nil {
			g.oblige(st, "decreases", name, li.header.Instrs[0].Pos(), "", And(S("<=", "0", li.entryDec), S("<", t, li.entryDec)), "loop variant decreases and is bounded: "+c.Src)
		}
	}
}

func max64(a, b int64) int64 {
	if a > b {
		return a
	}
	return b
}

// regAlloc: a local that the engine keeps as a register. Besides the allocs the
// compiler proved non-escaping, a local captured ONLY by closures that are
// themselves only deferred (the named-results-plus-deferred-recover idiom) is
// private to this activation: no callee can reach it, so calls do not havoc it.
// The deferred closure's effect on it is applied when the defers run.
var regAllocCache = map[*ssa.Alloc]bool{}

func regAlloc(a *ssa.Alloc) bool {
	if !a.Heap {
		return true
	}
	if v, ok := regAllocCache[a]; ok {
		return v
	}
	ok := privateToDeferredClosures(a)
	regAllocCache[a] = ok
	return ok
}

func privateToDeferredClosures(a *ssa.Alloc) bool {
	refs := a.Referrers()
	if refs == nil {
		return false
	}
	captured := false
	var check func(v ssa.Value, refs []ssa.Instruction) bool
	check = func(v ssa.Value, refs []ssa.Instruction) bool {
		for _, r := range refs {
			switch x := r.(type) {
			case *ssa.DebugRef:
			case *ssa.UnOp:
			case *ssa.Store:
				if x.Val == v {
					return false // the address itself is stored somewhere
				}
			case *ssa.FieldAddr:
				if x.Referrers() != nil && !check(x, *x.Referrers()) {
					return false
				}
			case *ssa.IndexAddr:
				if x.Referrers() != nil && !check(x, *x.Referrers()) {
					return false
				}
			case *ssa.MakeClosure:
				captured = true
				crefs := x.Referrers()
				if crefs == nil {
					return false
				}
				for _, cr := range *crefs {
					switch d := cr.(type) {
					case *ssa.Defer:
						if d.Call.Value != x {
							return false
						}
					case *ssa.DebugRef:
					default:
						return false
					}
				}
			default:
				return false
			}
		}
		return true
	}
	return check(a, *refs) && captured
}

// freeVarIsPrivate: free variable i of this closure is bound, in the parent, to a
// local that only deferred closures capture (see regAlloc).
func (g *fnGen) freeVarIsPrivate(i int) bool {
	parent := g.fn.Parent()
	if parent == nil {
		return false
	}
	for _, b := range parent.Blocks {
		for _, ins := range b.Instrs {
			mc, ok := ins.(*ssa.MakeClosure)
			if !ok || mc.Fn != g.fn || i >= len(mc.Bindings) {
				continue
			}
			al, ok := mc.Bindings[i].(*ssa.Alloc)
			return ok && al.Heap && regAlloc(al)
		}
	}
	return false
}

// recoverOnlyClosure: the closure's body is `if r := recover(); r != nil { ... }` and
// nothing else, so on the path where nothing panicked it has no effect.
func recoverOnlyClosure(fn *ssa.Function) bool {
	if len(fn.Blocks) == 0 {
		return false
	}
	entry := fn.Blocks[0]
	sawRecover := false
	for _, ins := range entry.Instrs {
		switch x := ins.(type) {
		case *ssa.Call:
			if b, ok := x.Call.Value.(*ssa.Builtin); ok && (b.Name() == "recover" || b.Name() == "ssa:deferstack") {
				if b.Name() == "recover" {
					sawRecover = true
				}
				continue
			}
			return false
		case *ssa.Store, *ssa.Alloc, *ssa.DebugRef, *ssa.UnOp, *ssa.BinOp, *ssa.If, *ssa.MakeInterface, *ssa.ChangeInterface:
		default:
			return false
		}
	}
	if !sawRecover {
		return false
	}
	if _, ok := entry.Instrs[len(entry.Instrs)-1].(*ssa.If); !ok {
		return false
	}
	// the non-panicking successor must do nothing but return
	els := entry.Succs[1]
	for _, ins := range els.Instrs {
		switch ins.(type) {
		case *ssa.RunDefers, *ssa.Return, *ssa.DebugRef, *ssa.Jump:
		default:
			return false
		}
	}
	return true
}

func (g *fnGen) accessGuardObligations(st *state, a *addr, write bool, instr ssa.Instruction) {
	if len(g.P.cs.AccessGuards) == 0 || g.ct == nil || g.ct.Synth {
		return
	}
	n, ok := a.structT.(*types.Named)
	if !ok || n.Obj().Pkg() == nil {
		return
	}
	for _, ag := range g.P.cs.AccessGuards {
		if ag.PkgPath != n.Obj().Pkg().Path() || ag.Struct != n.Obj().Name() || ag.Field != a.field.Name() {
			continue
		}
		e, kind, what := ag.Read, "guard-read", "read of "
		if write {
			e, kind, what = ag.Write, "guard-write", "write of "
		}
		if e == nil {
			continue
		}
		t, err := g.evalBool(e, &evalEnv{g: g, cur: st, old: g.entry, mode: "hook", names: map[string]binding{"self": {a.ref, types.NewPointer(a.structT)}}})
		if err != nil {
			g.stale = append(g.stale, fmt.Sprintf("accessguard %s.%s: %v", ag.Struct, ag.Field, err))
			continue
		}
		g.oblige(st, kind, ag.Struct+"."+ag.Field+" @ "+g.anchor(instr.Pos(), "access"), instr.Pos(), "", t, what+ag.Struct+"."+ag.Field+" is allowed only when: "+ag.Src)
	}
}

func (g *fnGen) writeGuardObligations(st *state, a *addr, instr ssa.Instruction) {
	n, ok := a.structT.(*types.Named)
	if !ok || n.Obj().Pkg() == nil {
		return
	}
	for _, wg := range g.P.cs.WriteGuards {
		if wg.PkgPath != n.Obj().Pkg().Path() || wg.Struct != n.Obj().Name() || wg.Field != a.field.Name() {
			continue
		}
		t, err := g.evalBool(wg.E, &evalEnv{g: g, cur: st, old: g.entry, mode: "callee", names: map[string]binding{"self": {a.ref, types.NewPointer(a.structT)}}, pkg: n.Obj().Pkg()})
		if err != nil {
			g.stale = append(g.stale, fmt.Sprintf("writeguard %s.%s: %v", wg.Struct, wg.Field, err))
			continue
		}
		g.oblige(st, "write-guard", wg.Struct+"."+wg.Field+" <- "+g.anchor(instr.Pos(), "store"), instr.Pos(), "", t, "write to "+wg.Struct+"."+wg.Field+" is allowed only when: "+wg.Src)
	}
}

// reachedFromReceiver: v is the receiver, a field address of something reached from it, or a pointer loaded
// from such a field (NaiveForm keeps the receiver in a local that is stored once at entry).
func (g *fnGen) reachedFromReceiver(v ssa.Value) bool {
	recv := g.fn.Params[0]
	for depth := 0; depth < 12; depth++ {
		switch x := v.(type) {
		case *ssa.Parameter:
			return x == recv
		case *ssa.FieldAddr:
			v = x.X
		case *ssa.UnOp:
			if x.Op != token.MUL {
				return false
			}
			if al, ok := x.X.(*ssa.Alloc); ok {
				// the home of a parameter: exactly one store, of the receiver
				var stored ssa.Value
				n := 0
				for _, ref := range *al.Referrers() {
					if st, ok := ref.(*ssa.Store); ok && st.Addr == al {
						n++
						stored = st.Val
					}
				}
				return n == 1 && stored == recv
			}
			v = x.X
		default:
			return false
		}
	}
	return false
}
