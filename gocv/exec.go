package main

import (
	"fmt"
	"go/token"
	"go/types"
	"sort"
	"strings"

	"golang.org/x/tools/go/ssa"
)

func (g *fnGen) mapArrays(mt *types.Map, f func(name, srt string)) {
	k, v := shortTypeKey(mt.Key()), shortTypeKey(mt.Elem())
	ks, vs := g.R.sortOf(mt.Key()), g.R.sortOf(mt.Elem())
	f("MD!"+k+"!"+v, "(Array Int (Array "+ks+" Bool))")
	f("MV!"+k+"!"+v, "(Array Int (Array "+ks+" "+vs+"))")
}

func (g *fnGen) mapDomVal(st *state, mt *types.Map, ref string) (dom, val string) {
	k, v := shortTypeKey(mt.Key()), shortTypeKey(mt.Elem())
	ks, vs := g.R.sortOf(mt.Key()), g.R.sortOf(mt.Elem())
	d := g.heapArray(st, "MD!"+k+"!"+v, "(Array Int (Array "+ks+" Bool))")
	vv := g.heapArray(st, "MV!"+k+"!"+v, "(Array Int (Array "+ks+" "+vs+"))")
	return S("select", d, ref), S("select", vv, ref)
}

func (g *fnGen) mapWrite(st *state, mt *types.Map, ref, key, val string, present bool) {
	k, v := shortTypeKey(mt.Key()), shortTypeKey(mt.Elem())
	ks, vs := g.R.sortOf(mt.Key()), g.R.sortOf(mt.Elem())
	dn, vn := "MD!"+k+"!"+v, "MV!"+k+"!"+v
	ds, vsrt := "(Array Int (Array "+ks+" Bool))", "(Array Int (Array "+ks+" "+vs+"))"
	d := g.heapArray(st, dn, ds)
	nd := g.freshConst(dn, ds)
	pres := "true"
	if !present {
		pres = "false"
	}
	g.assert(S("=", nd, S("store", d, ref, S("store", S("select", d, ref), key, pres))))
	st.heap[dn] = nd
	if present {
		vv := g.heapArray(st, vn, vsrt)
		nv := g.freshConst(vn, vsrt)
		g.assert(S("=", nv, S("store", vv, ref, S("store", S("select", vv, ref), key, val))))
		st.heap[vn] = nv
	}
}

func (g *fnGen) newRef(st *state, prefix string) string {
	r := g.freshConst(prefix, "Int")
	g.assert(S("=", r, st.alloc))
	na := g.freshConst("ALLOC", "Int")
	g.assert(S("=", na, S("+", r, "1")))
	st.alloc = na
	return r
}

func (g *fnGen) execBlock(b *ssa.BasicBlock, st *state) {
	ended := false
	for _, ins := range b.Instrs {
		if ended {
			break
		}
		if g.ct != nil && g.ct.Flags["no-package-state"] {
			g.packageStateObligations(st, ins)
		}
		switch x := ins.(type) {
		case *ssa.DebugRef:
		case *ssa.Alloc:
			t := deref(x.Type())
			if regAlloc(x) {
				st.regs[x] = g.R.zero(t)
			} else {
				r := g.newRef(st, "new")
				g.vals[x] = r
				g.storeFresh(st, t, r)
			}
		case *ssa.Store:
			a := g.resolveAddr(st, x.Addr)
			v := g.val(st, x.Val)
			if a == nil {
				g.abstracted["store through unresolved address"] = true
				g.havocAll(st)
				break
			}
			g.nilCheckAddr(st, x.Addr, a, x)
			g.store(st, a, v, x)
			g.provStore(x)
		case *ssa.UnOp:
			g.execUnOp(st, x)
		case *ssa.BinOp:
			xv, yv := g.val(st, x.X), g.val(st, x.Y)
			var t string
			if (x.Op == token.EQL || x.Op == token.NEQ) && isNilConst(x.Y) {
				t = g.isNil(xv, x.X.Type())
				if x.Op == token.NEQ {
					t = Not(t)
				}
			} else if (x.Op == token.EQL || x.Op == token.NEQ) && isNilConst(x.X) {
				t = g.isNil(yv, x.Y.Type())
				if x.Op == token.NEQ {
					t = Not(t)
				}
			} else {
				t = g.binop(st, x.Op, xv, yv, x.X.Type(), x.Y.Type(), x)
			}
			g.vals[x] = g.define(x.Name(), g.R.sortOf(x.Type()), t)
		case *ssa.Phi:
			if t, ok := st.regs[x]; ok {
				g.vals[x] = t
			} else {
				g.vals[x] = g.freshConst("phi", g.R.sortOf(x.Type()))
				st.regs[x] = g.vals[x]
			}
		case *ssa.Call:
			g.doCall(st, x.Common(), x, x)
		case *ssa.ChangeType:
			g.vals[x] = g.val(st, x.X)
		case *ssa.Convert:
			if isFloat(x.X.Type()) && isInteger(x.Type()) {
				if lo, hi, ok := intRange(x.Type().Underlying().(*types.Basic)); ok {
					fv := S("f2i", g.val(st, x.X))
					g.oblige(st, "conv", g.anchor(x.Pos(), "float-to-int"), x.Pos(), "", And(S("<=", IntLit(lo), fv), S("<=", fv, IntLit(hi))), "float to integer conversion is in range (out-of-range results are implementation-defined in Go)")
				}
			}
			g.vals[x] = g.define(x.Name(), g.R.sortOf(x.Type()), g.convert(st, g.val(st, x.X), x.X.Type(), x.Type()))
		case *ssa.MultiConvert:
			g.vals[x] = g.freshConst("mconv", g.R.sortOf(x.Type()))
		case *ssa.ChangeInterface:
			g.vals[x] = g.val(st, x.X)
		case *ssa.MakeInterface:
			xv := g.val(st, x.X)
			if _, isIface := x.X.Type().Underlying().(*types.Interface); isIface {
				g.vals[x] = xv
				break
			}
			tag := g.R.tagOf(x.X.Type())
			g.vals[x] = g.define(x.Name(), "Iface", S("mk-iface", fmt.Sprint(tag), g.R.boxT(x.X.Type(), xv)))
		case *ssa.TypeAssert:
			g.execTypeAssert(st, x)
		case *ssa.Extract:
			if tp, ok := g.tuples[x.Tuple]; ok && x.Index < len(tp) {
				g.vals[x] = tp[x.Index]
			} else {
				g.vals[x] = g.freshConst("extract", g.R.sortOf(x.Type()))
				g.typeFacts(st, g.vals[x], x.Type())
			}
			if p, ok := g.prov[x.Tuple]; ok {
				g.prov[x] = p
			}
		case *ssa.Field:
			info := g.R.structInfoOf(x.X.Type())
			g.vals[x] = S(info.sels[x.Field], g.val(st, x.X))
		case *ssa.FieldAddr:
			if _, isReg := rootAlloc(x.X); !isReg {
				ref := g.val(st, x.X)
				g.oblige(st, "nil", g.anchor(x.Pos(), "field "+x.Name()), x.Pos(), "", Not(S("=", ref, "0")), "nil pointer dereference")
			}
		case *ssa.IndexAddr:
			g.execIndexAddr(st, x)
		case *ssa.Index:
			xv, iv := g.val(st, x.X), g.val(st, x.Index)
			if isString(x.X.Type()) {
				g.oblige(st, "bounds", g.anchor(x.Pos(), "index"), x.Pos(), "", And(S("<=", "0", iv), S("<", iv, S("strlen", xv))), "string index in range")
				g.vals[x] = S("strbyte", xv, iv)
			} else if at, ok := x.X.Type().Underlying().(*types.Array); ok {
				g.oblige(st, "bounds", g.anchor(x.Pos(), "index"), x.Pos(), "", And(S("<=", "0", iv), S("<", iv, fmt.Sprint(at.Len()))), "array index in range")
				g.vals[x] = S("select", xv, iv)
			} else {
				g.vals[x] = g.freshConst("index", g.R.sortOf(x.Type()))
			}
		case *ssa.Slice:
			g.execSlice(st, x)
		case *ssa.Lookup:
			g.execLookup(st, x)
		case *ssa.MapUpdate:
			mt := x.Map.Type().Underlying().(*types.Map)
			m := g.val(st, x.Map)
			g.oblige(st, "nilmap", g.anchor(x.Pos(), "mapupdate"), x.Pos(), "", Not(S("=", m, "0")), "assignment to entry in nil map")
			if p := g.prov[x.Map]; p != nil {
				g.guardObligation(st, p, true, x)
			}
			g.frameObligationMap(st, m, mt, x)
			g.mapWrite(st, mt, m, g.val(st, x.Key), g.val(st, x.Value), true)
		case *ssa.MakeMap:
			r := g.newRef(st, "map")
			g.vals[x] = r
			mt := x.Type().Underlying().(*types.Map)
			k, v := shortTypeKey(mt.Key()), shortTypeKey(mt.Elem())
			ks := g.R.sortOf(mt.Key())
			dn, ds := "MD!"+k+"!"+v, "(Array Int (Array "+ks+" Bool))"
			d := g.heapArray(st, dn, ds)
			nd := g.freshConst(dn, ds)
			g.assert(S("=", nd, S("store", d, r, "((as const (Array "+ks+" Bool)) false)")))
			st.heap[dn] = nd
		case *ssa.MakeSlice:
			g.execMakeSlice(st, x)
		case *ssa.MakeChan:
			r := g.newRef(st, "chan")
			g.vals[x] = r
			arr := g.heapArray(st, "G!chanclosed", "(Array Int Bool)")
			n := g.freshConst("G!chanclosed", "(Array Int Bool)")
			g.assert(S("=", n, S("store", arr, r, "false")))
			st.heap["G!chanclosed"] = n
		case *ssa.MakeClosure:
			g.vals[x] = g.newRef(st, "closure")
			for _, bnd := range x.Bindings {
				g.val(st, bnd)
			}
		case *ssa.Range:
			st.regs[x] = "0"
			g.vals[x] = "0"
		case *ssa.Next:
			g.execNext(st, x)
		case *ssa.Defer:
			if len(g.inLoops[b]) > 0 {
				g.abstracted["defer inside a loop"] = true
			}
			// argument values are captured now
			for _, a := range x.Call.Args {
				g.val(st, a)
			}
			st.defers = append(st.defers, x)
			g.deferArgs[x] = g.captureArgs(st, &x.Call)
		case *ssa.RunDefers:
			for i := len(st.defers) - 1; i >= 0; i-- {
				d := st.defers[i]
				if mc, ok := d.Call.Value.(*ssa.MakeClosure); ok {
					if cf, ok := mc.Fn.(*ssa.Function); ok && recoverOnlyClosure(cf) {
						// nothing panicked on this path: recover() returns nil and the closure does nothing
						g.assumptions["a deferred closure of the form `if r := recover(); r != nil {…}` is a no-op on paths without a panic; the panicking path is checked on the closure itself"] = true
						continue
					}
				}
				g.doCallWithArgs(st, &d.Call, d, nil, g.deferArgs[d])
				if mc, ok := d.Call.Value.(*ssa.MakeClosure); ok {
					for _, bnd := range mc.Bindings {
						if al, ok := bnd.(*ssa.Alloc); ok && al.Heap && regAlloc(al) {
							h := g.freshConst("dfr!"+al.Comment, g.R.sortOf(deref(al.Type())))
							g.typeFacts(st, h, deref(al.Type()))
							st.regs[al] = h
						}
					}
				}
			}
			st.defers = nil
		case *ssa.Go:
			g.abstracted["go statement (new goroutine not modelled; heap havocked)"] = true
			g.havocAll(st)
		case *ssa.Send:
			ch := g.val(st, x.Chan)
			v := g.val(st, x.X)
			arr := g.heapArray(st, "G!chanclosed", "(Array Int Bool)")
			g.oblige(st, "chan", g.anchor(x.Pos(), "send"), x.Pos(), "", Not(S("select", arr, ch)), "send on closed channel")
			g.bumpGhost(st, "G!chansends", ch)
			if g.R.sortOf(x.X.Type()) == "Iface" {
				la := g.heapArray(st, "G!chanlastsent", "(Array Int Iface)")
				n := g.freshConst("G!chanlastsent", "(Array Int Iface)")
				g.assert(S("=", n, S("store", la, ch, v)))
				st.heap["G!chanlastsent"] = n
			}
		case *ssa.Select:
			g.abstracted["select statement"] = true
			for _, s := range x.States {
				if s.Dir == types.SendOnly {
					ch := g.val(st, s.Chan)
					arr := g.heapArray(st, "G!chanclosed", "(Array Int Bool)")
					g.oblige(st, "chan", g.anchor(s.Pos, "select-send"), s.Pos, "", Not(S("select", arr, ch)), "send on closed channel (select)")
				}
			}
			tup := x.Type().(*types.Tuple)
			var ts []string
			for i := 0; i < tup.Len(); i++ {
				c := g.freshConst("sel", g.R.sortOf(tup.At(i).Type()))
				g.typeFacts(st, c, tup.At(i).Type())
				ts = append(ts, c)
			}
			g.tuples[x] = ts
		case *ssa.Panic:
			g.val(st, x.X)
			g.oblige(st, "panic", g.anchor(x.Pos(), "panic"), x.Pos(), "", "false", "explicit panic reachable")
			ended = true
			g.outStates[b] = nil
			return
		case *ssa.Return:
			g.execReturn(st, x)
			g.outStates[b] = nil
			return
		case *ssa.If:
			c := g.val(st, x.Cond)
			cn := g.define("c", "Bool", c)
			g.edgeConds[[2]int{b.Index, 0}] = g.nameReach(And(st.reach, cn), b.Index, 0)
			g.edgeConds[[2]int{b.Index, 1}] = g.nameReach(And(st.reach, Not(cn)), b.Index, 1)
		case *ssa.Jump:
			g.edgeConds[[2]int{b.Index, 0}] = st.reach
		case *ssa.SliceToArrayPointer:
			g.vals[x] = g.freshConst("s2a", "Int")
		default:
			g.abstracted[fmt.Sprintf("instruction %T", ins)] = true
			if v, ok := ins.(ssa.Value); ok {
				g.vals[v] = g.freshConst("unsupported", g.R.sortOf(v.Type()))
			}
		}
	}
	g.outStates[b] = st
	// back edges
	for si, s := range b.Succs {
		if isBackEdge(b, s) {
			c := g.edgeConds[[2]int{b.Index, si}]
			if c == "" {
				continue
			}
			es := g.stateAtEdge(inEdge{b, st, c}, s)
			g.backEdge(g.loops[s], es, b.Instrs[len(b.Instrs)-1].Pos())
		}
	}
}

func (g *fnGen) nameReach(t string, bi, si int) string {
	if len(t) < 30 {
		return t
	}
	r := g.freshConst(fmt.Sprintf("edge!%d!%d", bi, si), "Bool")
	g.assert(S("=", r, t))
	return r
}

func isNilConst(v ssa.Value) bool {
	c, ok := v.(*ssa.Const)
	return ok && c.Value == nil && !isBasicZeroable(c.Type())
}

func isBasicZeroable(t types.Type) bool {
	_, ok := t.Underlying().(*types.Basic)
	return ok
}

func (g *fnGen) isNil(term string, t types.Type) string {
	switch t.Underlying().(type) {
	case *types.Interface:
		return S("=", S("i-tag", term), "0")
	case *types.Slice:
		return S("=", S("s-base", term), "0")
	}
	return S("=", term, "0")
}

// storeFresh initialises a freshly allocated object to its zero value.
func (g *fnGen) storeFresh(st *state, t types.Type, ref string) {
	saved := g.noFrame
	g.noFrame = true
	if at, ok := t.Underlying().(*types.Array); ok {
		// arrays live in elem arrays keyed by the pointer
		if _, isStruct := at.Elem().Underlying().(*types.Struct); !isStruct {
			name := g.elemArrayName(at.Elem())
			srt := "(Array Int (Array Int " + g.R.sortOf(at.Elem()) + "))"
			arr := g.heapArray(st, name, srt)
			n := g.freshConst(name, srt)
			g.assert(S("=", n, S("store", arr, ref, "((as const (Array Int "+g.R.sortOf(at.Elem())+")) "+g.R.zero(at.Elem())+")")))
			st.heap[name] = n
		}
	} else {
		g.storeAt(st, t, ref, g.R.zero(t))
	}
	g.noFrame = saved
}

func (g *fnGen) nilCheckAddr(st *state, v ssa.Value, a *addr, instr ssa.Instruction) {
	if a.kind == akReg || a.isField || a.isElem {
		return // checked at FieldAddr / IndexAddr
	}
	if _, isGlobal := v.(*ssa.Global); isGlobal {
		return
	}
	if al, ok := v.(*ssa.Alloc); ok && !regAlloc(al) {
		return
	}
	if _, ok := v.(*ssa.IndexAddr); ok {
		return
	}
	g.oblige(st, "nil", g.anchor(instr.Pos(), "deref "+v.Name()), instr.Pos(), "", Not(S("=", a.ptr, "0")), "nil pointer dereference")
}

func (g *fnGen) execUnOp(st *state, x *ssa.UnOp) {
	switch x.Op {
	case token.MUL:
		a := g.resolveAddr(st, x.X)
		if a == nil {
			g.vals[x] = g.freshConst("load", g.R.sortOf(x.Type()))
			g.typeFacts(st, g.vals[x], x.Type())
			return
		}
		g.nilCheckAddr(st, x.X, a, x)
		t := g.load(st, a, x)
		needFacts := a.kind != akReg
		c := g.define(x.Name(), g.R.sortOf(x.Type()), t)
		g.vals[x] = c
		if needFacts {
			g.typeFacts(st, c, x.Type())
		}
		if a.prov != nil {
			g.prov[x] = a.prov
		}
		if a.kind == akReg && len(a.path) == 0 {
			if ra, isAl := a.reg.(*ssa.Alloc); isAl {
				if p, ok := g.regProv[ra]; ok {
					g.prov[x] = p
				}
			}
		}
	case token.NOT:
		g.vals[x] = Not(g.val(st, x.X))
	case token.SUB:
		if isFloat(x.Type()) {
			g.vals[x] = S("-", g.val(st, x.X))
		} else {
			g.vals[x] = S("-", g.val(st, x.X))
		}
	case token.XOR:
		g.vals[x] = S("bvnot", g.val(st, x.X))
	case token.ARROW:
		chv := g.val(st, x.X)
		et := x.X.Type().Underlying().(*types.Chan).Elem()
		v := g.freshConst("recv", g.R.sortOf(et))
		g.typeFacts(st, v, et)
		g.bumpGhost(st, "G!chanrecvs", chv)
		if g.R.sortOf(et) == "Iface" {
			la := g.heapArray(st, "G!chanlastrecv", "(Array Int Iface)")
			n := g.freshConst("G!chanlastrecv", "(Array Int Iface)")
			g.assert(S("=", n, S("store", la, chv, v)))
			st.heap["G!chanlastrecv"] = n
		}
		if x.CommaOk {
			ok := g.freshConst("recvok", "Bool")
			g.assume(st, Imp(Not(ok), S("=", v, g.R.zero(et))))
			oa := g.heapArray(st, "G!chanlastok", "(Array Int Bool)")
			on := g.freshConst("G!chanlastok", "(Array Int Bool)")
			g.assert(S("=", on, S("store", oa, chv, ok)))
			st.heap["G!chanlastok"] = on
			g.tuples[x] = []string{v, ok}
		} else {
			g.vals[x] = v
		}
	default:
		g.abstracted["unop "+x.Op.String()] = true
		g.vals[x] = g.freshConst("unop", g.R.sortOf(x.Type()))
	}
}

// provStore: remember that a register holds a value loaded from a guarded field
func (g *fnGen) provStore(x *ssa.Store) {
	if a, ok := x.Addr.(*ssa.Alloc); ok && regAlloc(a) {
		if p, ok := g.prov[x.Val]; ok {
			g.regProv[a] = p
		} else {
			delete(g.regProv, a)
		}
	}
}

func (g *fnGen) execTypeAssert(st *state, x *ssa.TypeAssert) {
	xv := g.val(st, x.X)
	tag := S("i-tag", xv)
	var ok, v string
	if it, isIface := x.AssertedType.Underlying().(*types.Interface); isIface {
		if it.NumMethods() == 0 {
			ok = Not(S("=", tag, "0"))
		} else {
			ok = S(g.R.implSym(x.AssertedType), tag)
		}
		v = xv
	} else {
		ok = S("=", tag, fmt.Sprint(g.R.tagOf(x.AssertedType)))
		v = g.R.unboxT(x.AssertedType, S("i-val", xv))
	}
	okc := g.define("taok", "Bool", ok)
	if x.CommaOk {
		res := g.freshConst(x.Name(), g.R.sortOf(x.AssertedType))
		g.assert(S("=", res, S("ite", okc, v, g.R.zero(x.AssertedType))))
		g.tuples[x] = []string{res, okc}
		// static facts about a successfully asserted value
		sub := st.clone()
		sub.reach = And(st.reach, okc)
		g.typeFacts(sub, res, x.AssertedType)
		return
	}
	g.oblige(st, "assert-type", g.anchor(x.Pos(), "typeassert"), x.Pos(), "", okc, "unchecked type assertion holds: "+shortTypeKey(x.AssertedType))
	res := g.define(x.Name(), g.R.sortOf(x.AssertedType), v)
	g.vals[x] = res
	g.typeFacts(st, res, x.AssertedType)
}

func (g *fnGen) execIndexAddr(st *state, x *ssa.IndexAddr) {
	iv := g.val(st, x.Index)
	switch ct := x.X.Type().Underlying().(type) {
	case *types.Slice:
		sl := g.val(st, x.X)
		g.oblige(st, "bounds", g.anchor(x.Pos(), "index"), x.Pos(), "", And(S("<=", "0", iv), S("<", iv, S("s-len", sl))), "slice index in range")
	case *types.Pointer:
		at := ct.Elem().Underlying().(*types.Array)
		if c, isConst := x.Index.(*ssa.Const); isConst && c.Value != nil {
			return // constant index into a fixed array is checked by the compiler
		}
		g.oblige(st, "bounds", g.anchor(x.Pos(), "index"), x.Pos(), "", And(S("<=", "0", iv), S("<", iv, fmt.Sprint(at.Len()))), "array index in range")
	}
}

func (g *fnGen) execSlice(st *state, x *ssa.Slice) {
	xv := g.val(st, x.X)
	lo, hi := "0", ""
	if x.Low != nil {
		lo = g.val(st, x.Low)
	}
	if x.High != nil {
		hi = g.val(st, x.High)
	}
	anchor := g.anchor(x.Pos(), "slice")
	switch ct := x.X.Type().Underlying().(type) {
	case *types.Basic: // string
		if hi == "" {
			hi = S("strlen", xv)
		}
		g.oblige(st, "slice", anchor, x.Pos(), "", And(S("<=", "0", lo), S("<=", lo, hi), S("<=", hi, S("strlen", xv))), "string slice bounds in range")
		g.vals[x] = g.define(x.Name(), "Int", S("substr", xv, lo, hi))
	case *types.Slice:
		if hi == "" {
			hi = S("s-len", xv)
		}
		capT := S("s-cap", xv)
		goal := And(S("<=", "0", lo), S("<=", lo, hi), S("<=", hi, capT))
		ncap := S("-", capT, lo)
		if x.Max != nil {
			mx := g.val(st, x.Max)
			goal = And(S("<=", "0", lo), S("<=", lo, hi), S("<=", hi, mx), S("<=", mx, capT))
			ncap = S("-", mx, lo)
		}
		g.oblige(st, "slice", anchor, x.Pos(), "", goal, "slice bounds in range")
		g.vals[x] = g.define(x.Name(), "Slice", S("mk-slice", S("s-base", xv), S("+", S("s-off", xv), lo), S("-", hi, lo), ncap))
		_ = ct
	case *types.Pointer: // *array
		at := ct.Elem().Underlying().(*types.Array)
		n := fmt.Sprint(at.Len())
		if hi == "" {
			hi = n
		}
		if x.Low != nil || x.High != nil {
			g.oblige(st, "slice", anchor, x.Pos(), "", And(S("<=", "0", lo), S("<=", lo, hi), S("<=", hi, n)), "array slice bounds in range")
		}
		base := g.val(st, x.X)
		g.vals[x] = g.define(x.Name(), "Slice", S("mk-slice", base, lo, S("-", hi, lo), S("-", n, lo)))
	default:
		g.vals[x] = g.freshConst("slice", g.R.sortOf(x.Type()))
	}
}

func (g *fnGen) execLookup(st *state, x *ssa.Lookup) {
	xv, kv := g.val(st, x.X), g.val(st, x.Index)
	if isString(x.X.Type()) {
		g.oblige(st, "bounds", g.anchor(x.Pos(), "index"), x.Pos(), "", And(S("<=", "0", kv), S("<", kv, S("strlen", xv))), "string index in range")
		g.vals[x] = S("strbyte", xv, kv)
		return
	}
	mt := x.X.Type().Underlying().(*types.Map)
	if p := g.prov[x.X]; p != nil {
		g.guardObligation(st, p, false, x)
	}
	dom, val := g.mapDomVal(st, mt, xv)
	has := g.define("has", "Bool", And(Not(S("=", xv, "0")), S("select", dom, kv)))
	v := g.freshConst(x.Name(), g.R.sortOf(mt.Elem()))
	g.assert(S("=", v, S("ite", has, S("select", val, kv), g.R.zero(mt.Elem()))))
	g.typeFacts(st, v, mt.Elem())
	if x.CommaOk {
		g.tuples[x] = []string{v, has}
	} else {
		g.vals[x] = v
	}
}

func (g *fnGen) execMakeSlice(st *state, x *ssa.MakeSlice) {
	ln, cp := g.val(st, x.Len), g.val(st, x.Cap)
	et := x.Type().Underlying().(*types.Slice).Elem()
	sz := g.P.sizes.Sizeof(et)
	if sz < 1 {
		sz = 1
	}
	limit := fmt.Sprint((int64(1) << 47) / sz)
	g.oblige(st, "make", g.anchor(x.Pos(), "make"), x.Pos(), "", And(S("<=", "0", ln), S("<=", ln, cp), S("<=", cp, limit)), "make: len/cap non-negative, len <= cap, size below the runtime limit")
	r := g.newRef(st, "mk")
	g.vals[x] = g.define(x.Name(), "Slice", S("mk-slice", r, "0", ln, cp))
	if _, isStruct := et.Underlying().(*types.Struct); !isStruct {
		name := g.elemArrayName(et)
		srt := "(Array Int (Array Int " + g.R.sortOf(et) + "))"
		arr := g.heapArray(st, name, srt)
		n := g.freshConst(name, srt)
		g.assert(S("=", n, S("store", arr, r, "((as const (Array Int "+g.R.sortOf(et)+")) "+g.R.zero(et)+")")))
		st.heap[name] = n
	}
}

func (g *fnGen) execNext(st *state, x *ssa.Next) {
	rng := x.Iter.(*ssa.Range)
	if x.IsString {
		s := g.val(st, rng.X)
		pos := st.regs[rng]
		if pos == "" {
			pos = g.freshConst("iter", "Int")
			g.assume(st, S(">=", pos, "0"))
		}
		ok := g.define("nextok", "Bool", S("<", pos, S("strlen", s)))
		r := g.freshConst("rune", "Int")
		size := g.freshConst("rsize", "Int")
		g.assume(st, Imp(ok, And(S("<=", "1", size), S("<=", size, "4"), S("<=", S("+", pos, size), S("strlen", s)),
			S("<=", "0", r), S("<=", r, "1114111"),
			Imp(S("<", S("strbyte", s, pos), "128"), And(S("=", size, "1"), S("=", r, S("strbyte", s, pos)))),
			Imp(S(">=", S("strbyte", s, pos), "128"), S(">=", r, "128")))))
		g.tuples[x] = []string{ok, pos, r}
		np := g.freshConst("iter", "Int")
		g.assert(S("=", np, S("ite", ok, S("+", pos, size), pos)))
		st.regs[rng] = np
		return
	}
	mt, isMap := rng.X.Type().Underlying().(*types.Map)
	if !isMap {
		g.abstracted["range over "+rng.X.Type().String()] = true
		g.tuples[x] = []string{g.freshConst("nextok", "Bool"), "0", "0"}
		return
	}
	m := g.val(st, rng.X)
	if p := g.prov[rng.X]; p != nil {
		g.guardObligation(st, p, false, x)
	}
	// Go randomises map iteration order: a function whose observable result may depend on it
	// cannot be deterministic. `order-insensitive` in the contract is the (assumed, listed)
	// argument that the loop body commutes; otherwise the range is an obligation that cannot discharge.
	if g.ct != nil && g.ct.Flags["order-insensitive"] {
		g.assumptions["map iteration in "+g.key+" is declared order-insensitive (loop bodies commute)"] = true
	} else if g.sortedKeyRanges[rng.Pos()] {
		g.assumptions["map iteration in "+g.key+" only collects the keys into a slice that is sorted by sort.Strings / sort.Ints / slices.Sort right after the loop (recognised syntactically)"] = true
	} else if !g.mapOrderSeen[rng] {
		g.mapOrderSeen[rng] = true
		g.oblige(st, "map-order", g.anchor(rng.Pos(), shortTypeKey(rng.X.Type())), rng.Pos(), "", "false", "iteration over a Go map: the order is randomised, so the result may differ from run to run")
	}
	dom, val := g.mapDomVal(st, mt, m)
	ok := g.freshConst("nextok", "Bool")
	k := g.freshConst("mkey", g.R.sortOf(mt.Key()))
	v := g.freshConst("mval", g.R.sortOf(mt.Elem()))
	g.typeFacts(st, k, mt.Key())
	g.typeFacts(st, v, mt.Elem())
	g.assume(st, Imp(ok, And(Not(S("=", m, "0")), S("select", dom, k), S("=", v, S("select", val, k)))))
	g.tuples[x] = []string{ok, k, v}
	g.assumptions["map iteration yields an arbitrary present key each step (order and visited-set not modelled)"] = true
}

// ---- return ---------------------------------------------------------------------------

func (g *fnGen) execReturn(st *state, x *ssa.Return) {
	g.retOrd++
	var res []string
	for _, r := range x.Results {
		res = append(res, g.val(st, r))
	}
	if g.ct == nil {
		return
	}
	env := g.postEnv(st, res)
	for i, c := range g.ct.Ensures {
		t, err := g.evalBool(c.E, env)
		if err != nil {
			g.stale = append(g.stale, fmt.Sprintf("ensures %q: %v", c.Src, err))
			continue
		}
		g.oblige(st, "ensures", fmt.Sprintf("%s@ret%d", clauseLabel(c, i), g.retOrd), x.Pos(), "", t, "postcondition: "+c.Src)
	}
	// lock discipline: nothing to add here; lock state is part of ensures when stated
	cov := g.oblige(st, "cover", fmt.Sprintf("return%d", g.retOrd), x.Pos(), "", "true", "return is reachable under the precondition")
	cov.Cover = true
}

func (g *fnGen) postEnv(st *state, res []string) *evalEnv {
	env := &evalEnv{g: g, cur: st, old: g.entry, mode: "post", names: map[string]binding{}}
	sig := g.fn.Signature
	for i := 0; i < sig.Results().Len() && i < len(res); i++ {
		rv := sig.Results().At(i)
		b := binding{res[i], rv.Type()}
		if rv.Name() != "" && rv.Name() != "_" {
			env.names[rv.Name()] = b
		}
		if i < len(g.ct.ResNames) {
			env.names[g.ct.ResNames[i]] = b
		}
		env.names[fmt.Sprintf("result%d", i)] = b
		if i == 0 {
			env.names["result"] = b
		}
	}
	return env
}

// ---- guards / shared / frame obligations ---------------------------------------------------

func (g *fnGen) guardFor(structT types.Type, f *types.Var, ref string) *guardProv {
	n, ok := structT.(*types.Named)
	if !ok {
		return nil
	}
	for _, gd := range g.P.cs.Guards {
		if n.Obj().Pkg() == nil || gd.PkgPath != n.Obj().Pkg().Path() || gd.Struct != n.Obj().Name() {
			continue
		}
		for _, fn := range gd.Fields {
			if fn == f.Name() {
				return &guardProv{decl: gd, owner: ref, field: f.Name()}
			}
		}
	}
	return nil
}

func (g *fnGen) sharedFor(structT types.Type, field string) *SharedDecl {
	n, ok := structT.(*types.Named)
	if !ok || n.Obj().Pkg() == nil {
		return nil
	}
	for _, sd := range g.P.cs.Shared {
		if sd.PkgPath == n.Obj().Pkg().Path() && sd.Struct == n.Obj().Name() && sd.Name == field {
			return sd
		}
	}
	return nil
}

func (g *fnGen) sharedForGlobal(x *ssa.Global) *SharedDecl {
	for _, sd := range g.P.cs.Shared {
		if sd.Struct == "" && sd.PkgPath == x.Pkg.Pkg.Path() && sd.Name == x.Name() {
			return sd
		}
	}
	return nil
}

// lock state of the mutex guarding a field: ghost array G!lockstate keyed by the mutex address
func (g *fnGen) lockStateOf(st *state, p *guardProv) string {
	// find the struct type and mutex field
	pkg := g.P.typesPkg(p.decl.PkgPath)
	obj := pkg.Scope().Lookup(p.decl.Struct)
	structT := obj.Type()
	stt := structT.Underlying().(*types.Struct)
	for i := 0; i < stt.NumFields(); i++ {
		if stt.Field(i).Name() == p.decl.Mutex {
			mu := g.fieldAddrTerm(structT, i, p.owner)
			arr := g.heapArray(st, "G!lockstate", "(Array Int Int)")
			return S("select", arr, mu)
		}
	}
	return "0"
}

func (g *fnGen) guardObligation(st *state, p *guardProv, write bool, instr ssa.Instruction) {
	ls := g.lockStateOf(st, p)
	kind, goal, what := "guard-read", S(">=", ls, "1"), "read of "
	if write {
		kind, goal, what = "guard-write", S("=", ls, "2"), "write of "
	}
	g.oblige(st, kind, p.decl.Struct+"."+p.field, instr.Pos(), "", goal, what+p.decl.Struct+"."+p.field+" requires "+p.decl.Struct+"."+p.decl.Mutex+" held"+map[bool]string{true: " exclusively", false: ""}[write])
}

// State declared `shared` is reachable from several goroutines and has no
// guard: under the lockset rule every access is an obligation that cannot
// discharge (it is what a known finding names). Values stay stable, so the
// sequential contracts of the same functions are still checked.
func (g *fnGen) sharedAccessObligation(st *state, sd *SharedDecl, write bool, instr ssa.Instruction) {
	name := sd.Name
	if sd.Struct != "" {
		name = sd.Struct + "." + sd.Name
	}
	kind, what := "shared-read", "read of"
	if write {
		kind, what = "shared-write", "write to"
	}
	g.oblige(st, kind, name, instr.Pos(), "", "false", what+" shared state "+name+" with no guard (another goroutine may access it concurrently)")
}

type assignLoc struct {
	array string
	key   string // "" = whole array
	srt   string
}

func (g *fnGen) frameLocs() []assignLoc {
	if g.frameDone {
		return g.frame
	}
	g.frameDone = true
	if g.ct == nil || !g.ct.HasAssigns {
		return nil
	}
	env := &evalEnv{g: g, cur: g.entry, old: g.entry, mode: "pre"}
	for _, a := range g.ct.Assigns {
		if a.All {
			g.frameAll = true
			continue
		}
		locs, err := g.evalLoc(a.E, env)
		if err != nil {
			g.stale = append(g.stale, fmt.Sprintf("assigns %q: %v", a.Src, err))
			g.frameAll = true
			continue
		}
		g.frame = append(g.frame, locs...)
	}
	return g.frame
}

func (g *fnGen) frameObligation(st *state, kind, ref, array string, instr ssa.Instruction) {
	if g.noFrame || g.ct == nil || !g.ct.HasAssigns {
		return
	}
	locs := g.frameLocs()
	if g.frameAll {
		return
	}
	allowed := []string{S(">=", ref, g.frameEntryAlloc)} // object allocated by this call
	for _, l := range locs {
		if l.array != array {
			continue
		}
		if l.key == "" {
			return
		}
		allowed = append(allowed, S("=", ref, l.key))
	}
	g.oblige(st, "frame", strings.TrimPrefix(array, "F!")+" <- "+g.anchor(instr.Pos(), kind), instr.Pos(), "", Or(allowed...), "write stays inside the assigns clause: "+array)
}

func (g *fnGen) frameObligationMap(st *state, m string, mt *types.Map, instr ssa.Instruction) {
	if g.noFrame || g.ct == nil || !g.ct.HasAssigns {
		return
	}
	locs := g.frameLocs()
	if g.frameAll {
		return
	}
	var name string
	g.mapArrays(mt, func(n, _ string) {
		if name == "" {
			name = n
		}
	})
	allowed := []string{S(">=", m, g.frameEntryAlloc)}
	for _, l := range locs {
		if l.array != name {
			continue
		}
		if l.key == "" {
			return
		}
		allowed = append(allowed, S("=", m, l.key))
	}
	g.oblige(st, "frame", "map <- "+g.anchor(instr.Pos(), "mapupdate"), instr.Pos(), "", Or(allowed...), "map write stays inside the assigns clause")
}

func (g *fnGen) hooksUnused() []*Hook {
	var out []*Hook
	if g.ct == nil {
		return nil
	}
	for _, h := range g.ct.Hooks {
		if !h.used {
			out = append(out, h)
		}
	}
	return out
}

func sortedKeys(m map[string]bool) []string {
	var ks []string
	for k := range m {
		ks = append(ks, k)
	}
	sort.Strings(ks)
	return ks
}

func (g *fnGen) bumpGhost(st *state, name, key string) {
	arr := g.heapArray(st, name, "(Array Int Int)")
	n := g.freshConst(name, "(Array Int Int)")
	g.assert(S("=", n, S("store", arr, key, S("+", S("select", arr, key), "1"))))
	st.heap[name] = n
}

// packageStateObligations (flag `no-package-state`): the function's behaviour depends on its arguments and
// receiver only — every use of a package-level variable of the module that is written anywhere after
// initialisation (or whose address escapes) is an obligation that cannot be discharged.
func (g *fnGen) packageStateObligations(st *state, ins ssa.Instruction) {
	if _, ok := ins.(*ssa.DebugRef); ok {
		return
	}
	for _, op := range ins.Operands(nil) {
		gl, ok := (*op).(*ssa.Global)
		if !ok || gl.Pkg == nil || !strings.HasPrefix(gl.Pkg.Pkg.Path(), modulePath) {
			continue
		}
		if _, imm := g.P.immutable[gl]; imm {
			continue
		}
		name := gl.Pkg.Pkg.Name() + "." + gl.Name()
		g.oblige(st, "package-state", name, ins.Pos(), "", "false", "use of the mutable package-level variable "+name+" in a function declared no-package-state (state that outlives the VM / request it was computed for)")
	}
	// a helper of the same package (called directly, with no contract of its own) is part of the function
	if ci, ok := ins.(ssa.CallInstruction); ok {
		if callee := ci.Common().StaticCallee(); callee != nil && callee.Pkg != nil && callee.Pkg == g.fn.Pkg && g.P.cs.Funcs[callee.String()] == nil {
			if via := g.P.mutableGlobalUsedBy(callee, map[*ssa.Function]bool{}); via != "" {
				g.oblige(st, "package-state", shortName(callee.String())+" -> "+via, ins.Pos(), "", "false", "call of the helper "+shortName(callee.String())+", which uses the mutable package-level variable "+via+", in a function declared no-package-state")
			}
		}
	}
}

// mutableGlobalUsedBy: the first mutable package-level variable of the module used by fn, its closures or the
// contract-less functions of the same package it calls directly ("" if none).
func (P *Prog) mutableGlobalUsedBy(fn *ssa.Function, seen map[*ssa.Function]bool) string {
	if fn == nil || seen[fn] || len(seen) > 200 {
		return ""
	}
	seen[fn] = true
	for _, b := range fn.Blocks {
		for _, ins := range b.Instrs {
			if _, ok := ins.(*ssa.DebugRef); ok {
				continue
			}
			for _, op := range ins.Operands(nil) {
				if gl, ok := (*op).(*ssa.Global); ok && gl.Pkg != nil && strings.HasPrefix(gl.Pkg.Pkg.Path(), modulePath) {
					if _, imm := P.immutable[gl]; !imm {
						return gl.Pkg.Pkg.Name() + "." + gl.Name()
					}
				}
			}
			if ci, ok := ins.(ssa.CallInstruction); ok {
				if callee := ci.Common().StaticCallee(); callee != nil && callee.Pkg != nil && callee.Pkg == fn.Pkg && P.cs.Funcs[callee.String()] == nil {
					if via := P.mutableGlobalUsedBy(callee, seen); via != "" {
						return via
					}
				}
			}
		}
	}
	for _, an := range fn.AnonFuncs {
		if via := P.mutableGlobalUsedBy(an, seen); via != "" {
			return via
		}
	}
	return ""
}
