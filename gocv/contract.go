package main

// Contract files: comment-only Go files (//go:build verif) whose `//@` lines
// carry the contracts; plus /verif/prelude/*.spec with the same syntax for
// assumed contracts of external code.

import (
	"bufio"
	"fmt"
	"os"
	"regexp"
	"strconv"
	"strings"
)

type Clause struct {
	Label string
	Src   string
	E     SExpr
	File  string
	Line  int
}

type LoopSpec struct {
	Invariants []Clause
	Decreases  *Clause
}

type Hook struct {
	When   string // "at" | "after"
	Callee string // source text of the call's Fun expression
	Ord    int    // 1-based ordinal among calls with that text; 0 = every such call
	Kind   string // "assert" | "set" | "assume"
	Label  string
	Target SExpr // for set: ghost var or ghost func application
	E      SExpr
	Src    string
	Line   int
	used   bool
}

type GhostVar struct {
	Name string
	Type string
	Init SExpr
}

type AssignSpec struct {
	Src string
	E   SExpr // nil for "*" ; SIdent{"nothing"} handled by empty list
	All bool
}

type FuncContract struct {
	Key        string // relative key as written: "(*T).M", "F", "F$1"
	PkgPath    string
	Extern     bool
	Iface      bool // Key = "<iface type>.<method>"
	Requires   []Clause
	Ensures    []Clause
	Assigns    []AssignSpec
	HasAssigns bool
	Loops      map[int]*LoopSpec
	Ghosts     []GhostVar
	Hooks      []*Hook
	Flags      map[string]bool
	Decreases  *Clause  // function-level termination measure (recursion)
	Forbid     []string // regexps over callee names that must not be called
	ParamNames []string
	ResNames   []string
	File       string
	Line       int
	Synth      bool // synthesised for a sweep (flags only)
}

type GhostFunc struct {
	Name    string
	Params  []SVar
	Result  string
	Mutable bool   // ghost func (state) vs spec func (pure)
	Def     SExpr  // optional definition (spec func only)
	PkgPath string // resolution scope for type names
	Rec     bool
	Macro   bool // pred: expanded inline in the current state
}

type Axiom struct {
	Name    string
	E       SExpr
	Src     string
	PkgPath string
	Lemma   bool
}

type GuardDecl struct {
	PkgPath string
	Struct  string
	Mutex   string
	Fields  []string
}

type LockInv struct {
	PkgPath string
	Struct  string
	Mutex   string
	E       SExpr
	Src     string
}

// WriteGuard: every store to T.f (in a function that opts in with `checks-writeguards`)
// must satisfy E over `self` (the object written).
type WriteGuard struct {
	PkgPath string
	Struct  string
	Field   string
	E       SExpr
	Src     string
}

// AccessGuard: `accessguard T.f: read E1; write E2` — every load / store of T.f in a function under contract
// must happen in a state where E1 / E2 holds. Unlike `guarded`, the lock may live in another object: the
// expressions are evaluated in the scope of the accessing function (its receiver, parameters, locals;
// `self` is the object whose field is accessed).
type AccessGuard struct {
	PkgPath string
	Struct  string
	Field   string
	Read    SExpr
	Write   SExpr
	Src     string
}

type SharedDecl struct {
	PkgPath string
	Struct  string // "" for package-level var
	Name    string
}

type Contracts struct {
	Funcs        map[string]*FuncContract // full key -> contract
	Ifaces       map[string]*FuncContract // "<pkgpath>.<Iface>.<Method>"
	Ghosts       map[string]*GhostFunc
	Axioms       []*Axiom
	Guards       []*GuardDecl
	Shared       []*SharedDecl
	LockInvs     []*LockInv
	WriteGuards  []*WriteGuard
	AccessGuards []*AccessGuard
	Pure         map[string]bool // full function string
	PurePkg      map[string]bool
	Imports      map[string]map[string]string // pkgpath -> alias -> import path
	Problems     []string
	Files        []string
}

func newContracts() *Contracts {
	return &Contracts{Funcs: map[string]*FuncContract{}, Ifaces: map[string]*FuncContract{}, Ghosts: map[string]*GhostFunc{},
		Pure: map[string]bool{}, PurePkg: map[string]bool{}, Imports: map[string]map[string]string{}}
}

var reFuncHdr = regexp.MustCompile(`^(extern\s+)?func\s+(.*)$`)
var reLabel = regexp.MustCompile(`^([A-Za-z_][A-Za-z0-9_\-]*):\s+(.*)$`)

// fullKey turns a relative key into the ssa-style full function string.
func fullKey(pkgPath, key string) string {
	if strings.HasPrefix(key, "(*") {
		return "(*" + pkgPath + "." + key[2:]
	}
	if strings.HasPrefix(key, "(") {
		return "(" + pkgPath + "." + key[1:]
	}
	return pkgPath + "." + key
}

// parseContractFile reads one file. pkgPath is the import path whose scope
// resolves relative names ("" for the prelude, where everything is qualified).
func (cs *Contracts) parseContractFile(path, pkgPath string) error {
	f, err := os.Open(path)
	if err != nil {
		return err
	}
	defer f.Close()
	cs.Files = append(cs.Files, path)
	sc := bufio.NewScanner(f)
	sc.Buffer(make([]byte, 1<<20), 1<<20)
	var cur *FuncContract
	var curSpec *GhostFunc
	lineNo := 0
	var pending string
	pendingLine := 0
	problem := func(line int, f string, a ...interface{}) {
		cs.Problems = append(cs.Problems, fmt.Sprintf("%s:%d: %s", path, line, fmt.Sprintf(f, a...)))
	}
	handle := func(line string, ln int) {
		line = strings.TrimSpace(line)
		if line == "" {
			return
		}
		word := line
		rest := ""
		if i := strings.IndexAny(line, " \t"); i >= 0 {
			word, rest = line[:i], strings.TrimSpace(line[i+1:])
		}
		mkClause := func(src string) (Clause, bool) {
			label := ""
			if m := reLabel.FindStringSubmatch(src); m != nil {
				label, src = m[1], m[2]
			}
			e, err := parseSpec(src)
			if err != nil {
				problem(ln, "%v", err)
				return Clause{}, false
			}
			return Clause{Label: label, Src: src, E: e, File: path, Line: ln}, true
		}
		switch word {
		case "import":
			parts := strings.Fields(rest)
			if len(parts) == 2 {
				if cs.Imports[pkgPath] == nil {
					cs.Imports[pkgPath] = map[string]string{}
				}
				p, _ := strconv.Unquote(parts[1])
				cs.Imports[pkgPath][parts[0]] = p
			} else {
				problem(ln, "import: want `import alias \"path\"`")
			}
			return
		case "extern", "func":
			m := reFuncHdr.FindStringSubmatch(line)
			if m == nil {
				problem(ln, "bad func header")
				return
			}
			key := strings.TrimSpace(m[2])
			// receiver form "(b *T) M" -> "(*T).M"
			if strings.HasPrefix(key, "(") && !strings.Contains(key, ").") {
				cl := strings.Index(key, ")")
				recv := strings.Fields(key[1:cl])
				ty := recv[len(recv)-1]
				meth := strings.TrimSpace(key[cl+1:])
				key = "(" + ty + ")." + meth
			}
			if i := strings.Index(key, "("); i > 0 { // drop a parameter list if someone wrote one
				key = strings.TrimSpace(key[:i])
			}
			cur = &FuncContract{Key: key, PkgPath: pkgPath, Extern: m[1] != "", Loops: map[int]*LoopSpec{}, Flags: map[string]bool{}, File: path, Line: ln}
			curSpec = nil
			fk := key
			if !cur.Extern {
				fk = fullKey(pkgPath, key)
			}
			if _, dup := cs.Funcs[fk]; dup {
				problem(ln, "duplicate contract for %s", fk)
			}
			cs.Funcs[fk] = cur
			return
		case "iface":
			key := strings.TrimSpace(rest)
			cur = &FuncContract{Key: key, PkgPath: pkgPath, Iface: true, Loops: map[int]*LoopSpec{}, Flags: map[string]bool{}, File: path, Line: ln}
			curSpec = nil
			fk := key
			if !strings.Contains(key[:strings.LastIndex(key, ".")], ".") && pkgPath != "" { // "Iface.Method" relative
				fk = pkgPath + "." + key
			}
			if _, dup := cs.Ifaces[fk]; dup {
				problem(ln, "duplicate contract for interface method %s (the later one would silently replace the earlier)", fk)
			}
			cs.Ifaces[fk] = cur
			return
		case "ghost", "spec":
			if strings.HasPrefix(rest, "func ") {
				gf, err := parseGhostFuncDecl(strings.TrimPrefix(rest, "func "))
				if err != nil {
					problem(ln, "%v", err)
					return
				}
				gf.Mutable = word == "ghost"
				gf.PkgPath = pkgPath
				cs.Ghosts[gf.Name] = gf
				curSpec = gf
				cur = nil
				return
			}
			if word == "ghost" && strings.HasPrefix(rest, "var ") && cur != nil {
				// ghost var name type = init
				r := strings.TrimPrefix(rest, "var ")
				eq := strings.Index(r, "=")
				if eq < 0 {
					problem(ln, "ghost var needs initialiser")
					return
				}
				decl := strings.Fields(r[:eq])
				if len(decl) != 2 {
					problem(ln, "ghost var: want `ghost var name type = init`")
					return
				}
				e, err := parseSpec(r[eq+1:])
				if err != nil {
					problem(ln, "%v", err)
					return
				}
				cur.Ghosts = append(cur.Ghosts, GhostVar{decl[0], decl[1], e})
				return
			}
			problem(ln, "bad ghost/spec declaration")
			return
		case "pred":
			// pred name(a T, b U) := E    (macro, expanded in the state where it is used)
			i := strings.Index(rest, ":=")
			if i < 0 {
				problem(ln, "pred: want `pred name(params) := E`")
				return
			}
			gf, err := parseGhostFuncDecl(strings.TrimSpace(rest[:i]) + " bool")
			if err != nil {
				problem(ln, "%v", err)
				return
			}
			e, err := parseSpec(rest[i+2:])
			if err != nil {
				problem(ln, "%v", err)
				return
			}
			gf.Macro, gf.Def, gf.PkgPath = true, e, pkgPath
			cs.Ghosts[gf.Name] = gf
			cur, curSpec = nil, nil
			return
		case "def":
			if curSpec == nil {
				problem(ln, "def outside spec func")
				return
			}
			e, err := parseSpec(rest)
			if err != nil {
				problem(ln, "%v", err)
				return
			}
			curSpec.Def = e
			return
		case "rec":
			if curSpec != nil {
				curSpec.Rec = true
			}
			return
		case "axiom", "lemma":
			c, ok := mkClause(rest)
			if ok {
				cs.Axioms = append(cs.Axioms, &Axiom{Name: c.Label, E: c.E, Src: c.Src, PkgPath: pkgPath, Lemma: word == "lemma"})
			}
			return
		case "guarded":
			// guarded T.mu: f1, f2
			i := strings.Index(rest, ":")
			if i < 0 {
				problem(ln, "guarded: want `guarded T.mu: f1, f2`")
				return
			}
			tm := strings.Split(strings.TrimSpace(rest[:i]), ".")
			if len(tm) != 2 {
				problem(ln, "guarded: want T.mu")
				return
			}
			g := &GuardDecl{PkgPath: pkgPath, Struct: tm[0], Mutex: tm[1]}
			for _, f := range strings.Split(rest[i+1:], ",") {
				if f = strings.TrimSpace(f); f != "" {
					g.Fields = append(g.Fields, f)
				}
			}
			cs.Guards = append(cs.Guards, g)
			return
		case "writeguard":
			// writeguard T.f: E
			i := strings.Index(rest, ":")
			if i < 0 {
				problem(ln, "writeguard: want `writeguard T.f: E`")
				return
			}
			tm := strings.Split(strings.TrimSpace(rest[:i]), ".")
			if len(tm) != 2 {
				problem(ln, "writeguard: want T.f")
				return
			}
			e, err := parseSpec(rest[i+1:])
			if err != nil {
				problem(ln, "%v", err)
				return
			}
			cs.WriteGuards = append(cs.WriteGuards, &WriteGuard{PkgPath: pkgPath, Struct: tm[0], Field: tm[1], E: e, Src: strings.TrimSpace(rest[i+1:])})
			return
		case "accessguard":
			// accessguard T.f: read E1; write E2
			i := strings.Index(rest, ":")
			if i < 0 {
				problem(ln, "accessguard: want `accessguard T.f: read E1; write E2`")
				return
			}
			tm := strings.Split(strings.TrimSpace(rest[:i]), ".")
			if len(tm) != 2 {
				problem(ln, "accessguard: want T.f")
				return
			}
			ag := &AccessGuard{PkgPath: pkgPath, Struct: tm[0], Field: tm[1], Src: strings.TrimSpace(rest[i+1:])}
			for _, part := range strings.Split(rest[i+1:], ";") {
				part = strings.TrimSpace(part)
				var dst *SExpr
				switch {
				case strings.HasPrefix(part, "read "):
					dst, part = &ag.Read, part[5:]
				case strings.HasPrefix(part, "write "):
					dst, part = &ag.Write, part[6:]
				default:
					problem(ln, "accessguard: want `read E` or `write E`, got %q", part)
					return
				}
				e, err := parseSpec(part)
				if err != nil {
					problem(ln, "%v", err)
					return
				}
				*dst = e
			}
			cs.AccessGuards = append(cs.AccessGuards, ag)
			return
		case "lockinv":
			// lockinv T.mu: E   (E over `self`): holds whenever the mutex is free; assumed at acquisition, proved at release
			i := strings.Index(rest, ":")
			if i < 0 {
				problem(ln, "lockinv: want `lockinv T.mu: E`")
				return
			}
			tm := strings.Split(strings.TrimSpace(rest[:i]), ".")
			if len(tm) != 2 {
				problem(ln, "lockinv: want T.mu")
				return
			}
			e, err := parseSpec(rest[i+1:])
			if err != nil {
				problem(ln, "%v", err)
				return
			}
			cs.LockInvs = append(cs.LockInvs, &LockInv{PkgPath: pkgPath, Struct: tm[0], Mutex: tm[1], E: e, Src: strings.TrimSpace(rest[i+1:])})
			return
		case "shared":
			for _, f := range strings.Split(rest, ",") {
				f = strings.TrimSpace(f)
				if f == "" {
					continue
				}
				if strings.HasPrefix(f, "var ") {
					cs.Shared = append(cs.Shared, &SharedDecl{PkgPath: pkgPath, Name: strings.TrimSpace(f[4:])})
				} else if tm := strings.Split(f, "."); len(tm) == 2 {
					cs.Shared = append(cs.Shared, &SharedDecl{PkgPath: pkgPath, Struct: tm[0], Name: tm[1]})
				} else {
					problem(ln, "shared: want T.f or `var name`")
				}
			}
			return
		case "pure":
			for _, f := range strings.Fields(strings.ReplaceAll(rest, ",", " ")) {
				cs.Pure[f] = true
			}
			return
		case "purepkg":
			for _, f := range strings.Fields(strings.ReplaceAll(rest, ",", " ")) {
				cs.PurePkg[f] = true
			}
			return
		}
		if cur == nil {
			problem(ln, "clause %q outside a function contract", word)
			return
		}
		switch word {
		case "requires", "ensures":
			c, ok := mkClause(rest)
			if !ok {
				return
			}
			if word == "requires" {
				cur.Requires = append(cur.Requires, c)
			} else {
				cur.Ensures = append(cur.Ensures, c)
			}
		case "assigns":
			cur.HasAssigns = true
			if rest == "nothing" {
				return
			}
			for _, a := range splitTopLevel(rest) {
				a = strings.TrimSpace(a)
				if a == "*" {
					cur.Assigns = append(cur.Assigns, AssignSpec{Src: a, All: true})
					continue
				}
				e, err := parseSpec(a)
				if err != nil {
					problem(ln, "%v", err)
					continue
				}
				cur.Assigns = append(cur.Assigns, AssignSpec{Src: a, E: e})
			}
		case "decreases":
			c, ok := mkClause(rest)
			if ok {
				cur.Decreases = &c
			}
		case "forbid":
			cur.Forbid = append(cur.Forbid, strings.TrimSpace(rest))
		case "params":
			cur.ParamNames = strings.Fields(strings.ReplaceAll(rest, ",", " "))
		case "results":
			cur.ResNames = strings.Fields(strings.ReplaceAll(rest, ",", " "))
		case "loop":
			parts := strings.SplitN(rest, " ", 3)
			if len(parts) < 3 {
				problem(ln, "loop: want `loop N invariant|decreases E`")
				return
			}
			n, err := strconv.Atoi(parts[0])
			if err != nil {
				problem(ln, "loop ordinal: %v", err)
				return
			}
			c, ok := mkClause(parts[2])
			if !ok {
				return
			}
			ls := cur.Loops[n]
			if ls == nil {
				ls = &LoopSpec{}
				cur.Loops[n] = ls
			}
			switch parts[1] {
			case "invariant":
				ls.Invariants = append(ls.Invariants, c)
			case "decreases":
				ls.Decreases = &c
			default:
				problem(ln, "loop: unknown clause %q", parts[1])
			}
		case "at", "after":
			// at call TEXT#k assert [label:] E ; after call TEXT#k set TARGET = E ; after call TEXT#k assume E
			r := strings.TrimPrefix(rest, "call ")
			var kw string
			idx := -1
			for _, k := range []string{" assert ", " set ", " assume "} {
				if i := strings.Index(r, k); i >= 0 && (idx < 0 || i < idx) {
					idx, kw = i, strings.TrimSpace(k)
				}
			}
			if idx < 0 {
				problem(ln, "hook: want assert/set/assume")
				return
			}
			callee := strings.TrimSpace(r[:idx])
			body := strings.TrimSpace(r[idx+len(kw)+2:])
			ord := 0
			if i := strings.LastIndex(callee, "#"); i >= 0 {
				ord, _ = strconv.Atoi(callee[i+1:])
				callee = callee[:i]
			}
			h := &Hook{When: word, Callee: callee, Ord: ord, Kind: kw, Src: body, Line: ln}
			if kw == "set" {
				eq := strings.Index(body, " = ")
				if eq < 0 {
					problem(ln, "set: want TARGET = E")
					return
				}
				t, err := parseSpec(body[:eq])
				if err != nil {
					problem(ln, "%v", err)
					return
				}
				h.Target = t
				body = body[eq+3:]
			}
			c, ok := mkClause(body)
			if !ok {
				return
			}
			h.Label, h.E = c.Label, c.E
			cur.Hooks = append(cur.Hooks, h)
		case "nopanic", "models-panics", "trusted", "deterministic", "arith-checked", "readonly-receiver", "order-insensitive", "checks-writeguards", "writes-only-fresh-slices", "no-package-state":
			cur.Flags[word] = true
		default:
			problem(ln, "unknown clause %q", word)
		}
	}
	for sc.Scan() {
		lineNo++
		l := strings.TrimSpace(sc.Text())
		var body string
		switch {
		case strings.HasPrefix(l, "//@"):
			body = l[3:]
		case strings.HasPrefix(l, "// @"): // gofmt may rewrite
			body = l[4:]
		default:
			continue
		}
		if i := strings.Index(body, " //"); i >= 0 && !strings.Contains(body[:i], "\"") {
			body = body[:i]
		}
		body = strings.TrimRight(body, " \t")
		if strings.HasSuffix(body, "\\") {
			if pending == "" {
				pendingLine = lineNo
			}
			pending += strings.TrimSuffix(body, "\\") + " "
			continue
		}
		if pending != "" {
			handle(pending+body, pendingLine)
			pending = ""
			continue
		}
		handle(body, lineNo)
	}
	return sc.Err()
}

// splitTopLevel splits on commas not nested in () or [].
func splitTopLevel(s string) []string {
	var out []string
	depth := 0
	last := 0
	for i, c := range s {
		switch c {
		case '(', '[':
			depth++
		case ')', ']':
			depth--
		case ',':
			if depth == 0 {
				out = append(out, s[last:i])
				last = i + 1
			}
		}
	}
	out = append(out, s[last:])
	return out
}

// parseGhostFuncDecl parses "name(a T, b U) R".
func parseGhostFuncDecl(s string) (*GhostFunc, error) {
	op := strings.Index(s, "(")
	cl := strings.LastIndex(s, ")")
	if op < 0 || cl < op {
		return nil, fmt.Errorf("bad ghost/spec func declaration %q", s)
	}
	gf := &GhostFunc{Name: strings.TrimSpace(s[:op]), Result: strings.TrimSpace(s[cl+1:])}
	for _, p := range splitTopLevel(s[op+1 : cl]) {
		p = strings.TrimSpace(p)
		if p == "" {
			continue
		}
		i := strings.IndexAny(p, " \t")
		if i < 0 {
			return nil, fmt.Errorf("parameter %q needs a name and a type", p)
		}
		gf.Params = append(gf.Params, SVar{p[:i], &STypeExpr{strings.TrimSpace(p[i+1:])}})
	}
	if gf.Result == "" {
		return nil, fmt.Errorf("ghost/spec func %s needs a result type", gf.Name)
	}
	return gf, nil
}
