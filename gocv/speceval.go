package main

// Evaluation of spec expressions to SMT terms, in a given program state.

import (
	"fmt"
	"go/constant"
	"go/token"
	"go/types"
	"math/big"
	"strconv"
	"strings"

	"golang.org/x/tools/go/ssa"
)

type binding struct {
	term string
	typ  types.Type
}

type evalEnv struct {
	g          *fnGen
	cur, old   *state
	mode       string // pre | post | inv | hook | callee | axiom
	names      map[string]binding
	bound      map[string]binding
	pkg        *types.Package // scope for package-level names (callee's package for callee contracts)
	calleeCt   *FuncContract
	dry        bool
	macroDepth int
	loop       *loopInfo // the loop whose invariant / variant is being evaluated (binds rangeindex / rangelen)
	outer      *evalEnv  // inside a pred expansion: the environment of the clause that uses the pred (witness candidates)
}

func (e *evalEnv) with(cur *state) *evalEnv {
	n := *e
	n.cur = cur
	return &n
}

// pseudo types of the spec language
type MathMap struct{ K, V types.Type }

func (m *MathMap) Underlying() types.Type { return m }
func (m *MathMap) String() string         { return "mathmap[" + m.K.String() + "]" + m.V.String() }

type nilType struct{}

func (nilType) Underlying() types.Type { return nilType{} }
func (nilType) String() string         { return "untyped nil" }

func isNilType(t types.Type) bool { _, ok := t.(nilType); return ok }

var (
	tInt_   = types.Typ[types.Int]
	tBool_  = types.Typ[types.Bool]
	tStr_   = types.Typ[types.String]
	tFloat_ = types.Typ[types.Float64]
)

func (g *fnGen) sortOfSpec(t types.Type) string {
	if m, ok := t.(*MathMap); ok {
		return "(Array " + g.sortOfSpec(m.K) + " " + g.sortOfSpec(m.V) + ")"
	}
	return g.R.sortOf(t)
}

func (g *fnGen) evalBool(e SExpr, env *evalEnv) (string, error) {
	t, ty, err := g.eval(e, env)
	if err != nil {
		return "", err
	}
	if !isBool(ty) {
		return "", fmt.Errorf("expression %s is not boolean (%s)", e, ty)
	}
	return t, nil
}

func (env *evalEnv) scopePkg() *types.Package {
	if env.pkg != nil {
		return env.pkg
	}
	return env.g.typesPkgOfFn()
}

// typesPkgOfFn: the package a function's names resolve in (an instance of a generic has no package of its own)
func (g *fnGen) typesPkgOfFn() *types.Package {
	fn := g.fn
	for fn != nil {
		if fn.Pkg != nil {
			return fn.Pkg.Pkg
		}
		if o := fn.Origin(); o != nil && o != fn {
			fn = o
			continue
		}
		if p := fn.Parent(); p != nil {
			fn = p
			continue
		}
		if fn.Object() != nil {
			return fn.Object().Pkg()
		}
		break
	}
	return nil
}

func (env *evalEnv) imports() map[string]string {
	if env.calleeCt != nil {
		return env.g.P.cs.Imports[env.calleeCt.PkgPath]
	}
	if env.g.ct != nil {
		return env.g.P.cs.Imports[env.g.ct.PkgPath]
	}
	return nil
}

func (g *fnGen) eval(e SExpr, env *evalEnv) (string, types.Type, error) {
	switch x := e.(type) {
	case *SLit:
		switch x.Kind {
		case tInt:
			n, ok := new(big.Int).SetString(x.Val, 0)
			if !ok {
				return "", nil, fmt.Errorf("bad int %s", x.Val)
			}
			return IntLit(n), tInt_, nil
		case tFloat:
			return x.Val, tFloat_, nil
		case tString:
			s, err := strconv.Unquote(x.Val)
			if err != nil {
				return "", nil, err
			}
			return g.R.strConst(s), tStr_, nil
		case tChar:
			s, _, _, err := strconv.UnquoteChar(x.Val[1:len(x.Val)-1], '\'')
			if err != nil {
				return "", nil, err
			}
			return fmt.Sprint(int(s)), tInt_, nil
		}
	case *SIdent:
		return g.evalIdent(x.Name, env)
	case *SUn:
		t, ty, err := g.eval(x.X, env)
		if err != nil {
			return "", nil, err
		}
		switch x.Op {
		case "!":
			return Not(t), tBool_, nil
		case "-":
			return S("-", t), ty, nil
		case "^":
			return S("bvnot", t), ty, nil
		}
	case *SCond:
		c, err := g.evalBool(x.C, env)
		if err != nil {
			return "", nil, err
		}
		a, ta, err := g.eval(x.A, env)
		if err != nil {
			return "", nil, err
		}
		b, tb, err := g.eval(x.B, env)
		if err != nil {
			return "", nil, err
		}
		if isNilType(ta) {
			a, ta = g.R.zero(tb), tb
		}
		if isNilType(tb) {
			b = g.R.zero(ta)
		}
		return S("ite", c, a, b), ta, nil
	case *SBin:
		return g.evalBin(x, env)
	case *SQuant:
		ne := *env
		ne.bound = map[string]binding{}
		for k, v := range env.bound {
			ne.bound[k] = v
		}
		var decls []string
		for _, v := range x.Vars {
			ty, err := g.P.resolveType(v.T.Text, env.scopePkg(), env.imports())
			if err != nil {
				return "", nil, err
			}
			g.nfresh++
			sym := q(fmt.Sprintf("q!%s!%d", v.Name, g.nfresh))
			ne.bound[v.Name] = binding{sym, ty}
			decls = append(decls, "("+sym+" "+g.sortOfSpec(ty)+")")
		}
		body, err := g.evalBool(x.Body, &ne)
		if err != nil {
			return "", nil, err
		}
		qn := "exists"
		if x.Forall {
			qn = "forall"
		}
		quant := "(" + qn + " (" + strings.Join(decls, " ") + ") " + body + ")"
		if !x.Forall && len(x.Vars) == 1 {
			// exists x :: P(x) is equivalent to P(c) || exists x :: P(x); offering the running range
			// index and the function's integer locals as witnesses spares the solver an instantiation
			// it rarely finds by itself
			cands := []string{"rangeindex"}
			if bt, ok := ne.bound[x.Vars[0].Name].typ.Underlying().(*types.Basic); ok && bt.Info()&types.IsInteger != 0 {
				for _, l := range g.fn.Locals {
					if lb, ok := deref(l.Type()).Underlying().(*types.Basic); ok && lb.Info()&types.IsInteger != 0 && l.Comment != "" && len(cands) < 5 {
						cands = append(cands, l.Comment)
					}
				}
			}
			wenv := env
			if env.outer != nil {
				wenv = env.outer // a pred body sees no locals; its witnesses come from the clause that uses it
			}
			if env.mode == "axiom" || wenv.mode == "axiom" {
				cands = nil // an axiom is closed: nothing of the function under verification may enter it
			}
			for _, cn := range cands {
				if _, isBound := wenv.bound[cn]; isBound {
					continue // the name denotes a bound variable of an enclosing quantifier, not the local
				}
				cv, ct, err := g.evalIdent(cn, wenv)
				if err != nil || ct == nil {
					continue
				}
				if bt, ok := ct.Underlying().(*types.Basic); !ok || bt.Info()&types.IsInteger == 0 {
					continue
				}
				we := *env
				we.bound = map[string]binding{}
				for k, v := range env.bound {
					we.bound[k] = v
				}
				we.bound[x.Vars[0].Name] = binding{cv, ne.bound[x.Vars[0].Name].typ}
				if wb, err := g.evalBool(x.Body, &we); err == nil {
					quant = S("or", wb, quant)
				}
			}
		}
		return quant, tBool_, nil
	case *SSel:
		return g.evalSel(x, env)
	case *SIndex:
		xv, xt, err := g.eval(x.X, env)
		if err != nil {
			return "", nil, err
		}
		iv, _, err := g.eval(x.I, env)
		if err != nil {
			return "", nil, err
		}
		switch u := xt.Underlying().(type) {
		case *MathMap:
			return S("select", xv, iv), u.V, nil
		case *types.Basic:
			return S("strbyte", xv, iv), types.Typ[types.Uint8], nil
		case *types.Slice:
			if _, isStruct := u.Elem().Underlying().(*types.Struct); isStruct {
				return g.loadAt(env.cur, u.Elem(), g.elemAddrTerm(u.Elem(), S("s-base", xv), S("+", S("s-off", xv), iv))), u.Elem(), nil
			}
			return g.readElem(env.cur, u.Elem(), S("s-base", xv), S("+", S("s-off", xv), iv)), u.Elem(), nil
		case *types.Map:
			dom, val := g.mapDomVal(env.cur, u, xv)
			return S("ite", And(Not(S("=", xv, "0")), S("select", dom, iv)), S("select", val, iv), g.R.zero(u.Elem())), u.Elem(), nil
		case *types.Array:
			return S("select", xv, iv), u.Elem(), nil
		}
		return "", nil, fmt.Errorf("cannot index %s of type %s", x.X, xt)
	case *SSlice:
		xv, xt, err := g.eval(x.X, env)
		if err != nil {
			return "", nil, err
		}
		lo := "0"
		if x.Lo != nil {
			if lo, _, err = g.eval(x.Lo, env); err != nil {
				return "", nil, err
			}
		}
		if isString(xt) {
			hi := S("strlen", xv)
			if x.Hi != nil {
				if hi, _, err = g.eval(x.Hi, env); err != nil {
					return "", nil, err
				}
			}
			return S("substr", xv, lo, hi), xt, nil
		}
		if _, ok := xt.Underlying().(*types.Slice); ok {
			hi := S("s-len", xv)
			if x.Hi != nil {
				if hi, _, err = g.eval(x.Hi, env); err != nil {
					return "", nil, err
				}
			}
			return S("mk-slice", S("s-base", xv), S("+", S("s-off", xv), lo), S("-", hi, lo), S("-", S("s-cap", xv), lo)), xt, nil
		}
		return "", nil, fmt.Errorf("cannot slice %s", xt)
	case *SAssert:
		xv, _, err := g.eval(x.X, env)
		if err != nil {
			return "", nil, err
		}
		ty, err := g.P.resolveType(x.T.Text, env.scopePkg(), env.imports())
		if err != nil {
			return "", nil, err
		}
		if _, isIface := ty.Underlying().(*types.Interface); isIface {
			return xv, ty, nil
		}
		return g.R.unboxT(ty, S("i-val", xv)), ty, nil
	case *SCall:
		return g.evalCall(x, env)
	case *STypeExpr:
		return "", nil, fmt.Errorf("type expression %s used as value", x.Text)
	}
	return "", nil, fmt.Errorf("cannot evaluate %s", e)
}

func (g *fnGen) localByName(name string, env *evalEnv) (ssa.Value, bool) {
	if name == "rangeindex" && env != nil && env.loop != nil {
		// in a loop's own invariant the hidden index is that loop's, not the one of a nested range loop
		// the current block happens to sit behind
		for _, ins := range env.loop.header.Instrs {
			if st, ok := ins.(*ssa.Store); ok {
				if al, ok := st.Addr.(*ssa.Alloc); ok && al.Comment == "rangeindex" {
					return al, true
				}
			}
			if phi, ok := ins.(*ssa.Phi); ok && phi.Comment == "rangeindex" {
				return phi, true
			}
		}
	}
	var best ssa.Value
	var bestBlock *ssa.BasicBlock
	for _, b := range g.fn.Blocks {
		for _, ins := range b.Instrs {
			var v ssa.Value
			switch a := ins.(type) {
			case *ssa.Alloc:
				if a.Comment == name {
					v = a
				}
			case *ssa.Phi:
				if a.Comment == name {
					v = a
				}
			}
			if v == nil {
				continue
			}
			if al, ok := v.(*ssa.Alloc); ok && !regAlloc(al) {
				if _, ok := g.vals[al]; !ok {
					continue
				}
			} else if _, ok := env.cur.regs[v]; !ok {
				continue
			}
			if g.curBlock != nil && !(b == g.curBlock || b.Dominates(g.curBlock)) {
				if best == nil {
					best, bestBlock = v, b
				}
				continue
			}
			// prefer the innermost dominating definition
			if best == nil || bestBlock == nil || !(bestBlock == g.curBlock || bestBlock.Dominates(g.curBlock)) || bestBlock.Dominates(b) {
				best, bestBlock = v, b
			}
		}
	}
	return best, best != nil
}

func (g *fnGen) evalIdent(name string, env *evalEnv) (string, types.Type, error) {
	if b, ok := env.bound[name]; ok {
		return b.term, b.typ, nil
	}
	if b, ok := env.names[name]; ok {
		return b.term, b.typ, nil
	}
	switch name {
	case "rangelen":
		// length of the collection ranged over by the innermost enclosing `for … := range` loop (the bound the
		// hidden index is compared with; it is computed once before the loop, so it survives heap havoc)
		if v, ok := g.localByName("rangeindex", env); ok {
			if al, ok := v.(*ssa.Alloc); ok {
				for _, b := range g.fn.Blocks {
					if !strings.HasPrefix(b.Comment, "rangeindex.loop") {
						continue
					}
					stores := false
					for _, ins := range b.Instrs {
						if st, ok := ins.(*ssa.Store); ok && st.Addr == al {
							stores = true
						}
						if bo, ok := ins.(*ssa.BinOp); ok && stores && bo.Op == token.LSS {
							if t, ok := g.vals[bo.Y]; ok {
								return t, tInt_, nil
							}
						}
					}
				}
			}
		}
		return "", nil, fmt.Errorf("rangelen used outside a range loop over a slice")
	case "nil":
		return "0", nilType{}, nil
	case "true":
		return "true", tBool_, nil
	case "false":
		return "false", tBool_, nil
	}
	if env.mode != "callee" && env.mode != "axiom" {
		if t, ok := env.cur.ghost[name]; ok {
			return t, g.ghostTypes[name], nil
		}
		// parameters: entry value in pre/post, current value of the local otherwise
		if pv, ok := g.paramVals[name]; ok {
			if env.mode == "pre" || env.mode == "post" || env.cur == g.entry {
				return pv, g.paramTypes[name], nil
			}
		}
		if strings.HasSuffix(name, "0") {
			if pv, ok := g.paramVals[name[:len(name)-1]]; ok {
				return pv, g.paramTypes[name[:len(name)-1]], nil
			}
		}
		if v, ok := g.localByName(name, env); ok {
			switch a := v.(type) {
			case *ssa.Alloc:
				if !regAlloc(a) {
					return g.loadAt(env.cur, deref(a.Type()), g.vals[a]), deref(a.Type()), nil
				}
				return env.cur.regs[a], deref(a.Type()), nil
			case *ssa.Phi:
				return env.cur.regs[a], a.Type(), nil
			}
		}
		if pv, ok := g.paramVals[name]; ok {
			return pv, g.paramTypes[name], nil
		}
		// captured variable of a closure: a pointer to the enclosing function's local
		for _, fv := range g.fn.FreeVars {
			if fv.Name() == name {
				pt := deref(fv.Type())
				if g.privateFV[fv] {
					if t, ok := env.cur.regs[fv]; ok {
						return t, pt, nil
					}
				}
				return g.loadAt(env.cur, pt, g.vals[fv]), pt, nil
			}
		}
	}
	// package level
	pkg := env.scopePkg()
	if pkg != nil {
		if obj := pkg.Scope().Lookup(name); obj != nil {
			return g.evalObject(obj, env)
		}
	}
	if obj := types.Universe.Lookup(name); obj != nil {
		if c, ok := obj.(*types.Const); ok {
			return g.constVal(c.Val(), c.Type())
		}
	}
	return "", nil, fmt.Errorf("unknown identifier %q", name)
}

func (g *fnGen) constVal(v constant.Value, t types.Type) (string, types.Type, error) {
	switch v.Kind() {
	case constant.Bool:
		if constant.BoolVal(v) {
			return "true", tBool_, nil
		}
		return "false", tBool_, nil
	case constant.Int:
		n, _ := new(big.Int).SetString(v.ExactString(), 10)
		if b, ok := t.Underlying().(*types.Basic); ok && b.Info()&types.IsUntyped != 0 {
			t = tInt_
		}
		return IntLit(n), t, nil
	case constant.String:
		return g.R.strConst(constant.StringVal(v)), tStr_, nil
	case constant.Float:
		f, _ := constant.Float64Val(v)
		return strconv.FormatFloat(f, 'f', -1, 64), tFloat_, nil
	}
	return "", nil, fmt.Errorf("unsupported constant kind")
}

func (g *fnGen) evalObject(obj types.Object, env *evalEnv) (string, types.Type, error) {
	switch o := obj.(type) {
	case *types.Const:
		return g.constVal(o.Val(), o.Type())
	case *types.Var:
		// package-level variable
		sp := g.P.prog.Package(o.Pkg())
		if sp == nil {
			return "", nil, fmt.Errorf("package of %s not loaded", o.Name())
		}
		if gl, ok := sp.Members[o.Name()].(*ssa.Global); ok {
			if _, imm := g.P.immutable[gl]; imm && g.sharedForGlobal(gl) == nil {
				return g.immutableGlobalValue(gl), o.Type(), nil
			}
			ref := g.val(env.cur, gl)
			return g.loadAt(env.cur, o.Type(), ref), o.Type(), nil
		}
	case *types.Nil:
		return "0", nilType{}, nil
	}
	return "", nil, fmt.Errorf("identifier %s does not denote a value", obj.Name())
}

func (g *fnGen) lookupPkgAlias(name string, env *evalEnv) *types.Package {
	if imp := env.imports(); imp != nil {
		if p, ok := imp[name]; ok {
			return g.P.typesPkg(p)
		}
	}
	if pkg := env.scopePkg(); pkg != nil {
		for _, ip := range pkg.Imports() {
			if ip.Name() == name {
				return ip
			}
		}
	}
	return nil
}

func (g *fnGen) evalSel(x *SSel, env *evalEnv) (string, types.Type, error) {
	// qualified identifier?
	if id, ok := x.X.(*SIdent); ok {
		_, isBound := env.bound[id.Name]
		_, isName := env.names[id.Name]
		if !isBound && !isName {
			if _, _, err := g.evalIdent(id.Name, env); err != nil {
				if p := g.lookupPkgAlias(id.Name, env); p != nil {
					obj := p.Scope().Lookup(x.Sel)
					if obj == nil {
						return "", nil, fmt.Errorf("%s.%s not found", id.Name, x.Sel)
					}
					return g.evalObject(obj, env)
				}
			}
		}
	}
	xv, xt, err := g.eval(x.X, env)
	if err != nil {
		return "", nil, err
	}
	return g.selectField(xv, xt, x.Sel, env)
}

func (g *fnGen) selectField(xv string, xt types.Type, sel string, env *evalEnv) (string, types.Type, error) {
	// slice / iface pseudo-fields
	obj, index, indirect := types.LookupFieldOrMethod(xt, true, nil, sel)
	if obj == nil {
		// unexported field from another package: search manually
		obj, index = lookupFieldAnyPkg(xt, sel)
		_ = indirect
	}
	f, ok := obj.(*types.Var)
	if !ok || f == nil {
		return "", nil, fmt.Errorf("no field %s in %s", sel, xt)
	}
	cur, ct := xv, xt
	for _, idx := range index {
		if p, isPtr := ct.Underlying().(*types.Pointer); isPtr {
			// heap struct
			structT := p.Elem()
			stt, ok := structT.Underlying().(*types.Struct)
			if !ok {
				return "", nil, fmt.Errorf("selector through non-struct pointer %s", ct)
			}
			fld := stt.Field(idx)
			if _, isStruct := fld.Type().Underlying().(*types.Struct); isStruct {
				// embedded/inline struct: continue with interior pointer
				cur, ct = g.fieldAddrTerm(structT, idx, cur), types.NewPointer(fld.Type())
				continue
			}
			cur, ct = g.readField(env.cur, structT, fld, cur), fld.Type()
			// well-formedness of a value read from the heap (slice header, integer range) is a fact of every state
			switch fld.Type().Underlying().(type) {
			case *types.Slice, *types.Basic:
				if env.bound == nil || len(env.bound) == 0 {
					named := g.define("sf", g.R.sortOf(fld.Type()), cur)
					g.typeFacts(env.cur, named, fld.Type())
					cur = named
				}
			}
			continue
		}
		info := g.R.structInfoOf(ct)
		if info == nil {
			return "", nil, fmt.Errorf("selector on non-struct %s", ct)
		}
		cur, ct = S(info.sels[idx], cur), info.fields[idx].Type()
	}
	// a trailing pointer-to-inline-struct means the caller selected a struct-valued field: load it
	if p, isPtr := ct.Underlying().(*types.Pointer); isPtr && !types.Identical(ct, f.Type()) {
		return g.loadAt(env.cur, p.Elem(), cur), p.Elem(), nil
	}
	return cur, ct, nil
}

func lookupFieldAnyPkg(t types.Type, name string) (types.Object, []int) {
	t = deref(t)
	st, ok := t.Underlying().(*types.Struct)
	if !ok {
		return nil, nil
	}
	for i := 0; i < st.NumFields(); i++ {
		if st.Field(i).Name() == name {
			return st.Field(i), []int{i}
		}
	}
	for i := 0; i < st.NumFields(); i++ {
		if st.Field(i).Embedded() {
			if o, idx := lookupFieldAnyPkg(st.Field(i).Type(), name); o != nil {
				return o, append([]int{i}, idx...)
			}
		}
	}
	return nil, nil
}

func (g *fnGen) evalBin(x *SBin, env *evalEnv) (string, types.Type, error) {
	switch x.Op {
	case "==>", "<==>", "&&", "||":
		a, err := g.evalBool(x.L, env)
		if err != nil {
			return "", nil, err
		}
		b, err := g.evalBool(x.R, env)
		if err != nil {
			return "", nil, err
		}
		switch x.Op {
		case "==>":
			return Imp(a, b), tBool_, nil
		case "<==>":
			return S("=", a, b), tBool_, nil
		case "&&":
			return And(a, b), tBool_, nil
		default:
			return Or(a, b), tBool_, nil
		}
	}
	a, ta, err := g.eval(x.L, env)
	if err != nil {
		return "", nil, err
	}
	b, tb, err := g.eval(x.R, env)
	if err != nil {
		return "", nil, err
	}
	switch x.Op {
	case "==", "!=":
		var t string
		switch {
		case isNilType(tb) && isNilType(ta):
			t = "true"
		case isNilType(tb):
			t = g.isNil(a, ta)
		case isNilType(ta):
			t = g.isNil(b, tb)
		default:
			// interface vs concrete value: box the concrete side
			if _, ai := ta.Underlying().(*types.Interface); ai {
				if _, bi := tb.Underlying().(*types.Interface); !bi {
					b = S("mk-iface", fmt.Sprint(g.R.tagOf(tb)), g.R.boxT(tb, b))
					tb = ta
				}
			} else if _, bi := tb.Underlying().(*types.Interface); bi {
				a = S("mk-iface", fmt.Sprint(g.R.tagOf(ta)), g.R.boxT(ta, a))
				ta = tb
			}
			if g.sortOfSpec(ta) != g.sortOfSpec(tb) {
				// int vs real comparisons
				if g.sortOfSpec(ta) == "Int" && g.sortOfSpec(tb) == "Real" {
					a = S("to_real", a)
				} else if g.sortOfSpec(ta) == "Real" && g.sortOfSpec(tb) == "Int" {
					b = S("to_real", b)
				} else {
					return "", nil, fmt.Errorf("comparison of different sorts: %s (%s) vs %s (%s)", x.L, ta, x.R, tb)
				}
			}
			t = S("=", a, b)
		}
		if x.Op == "!=" {
			t = Not(t)
		}
		return t, tBool_, nil
	case "<", "<=", ">", ">=":
		if ta != nil && tb != nil && isString(ta) && isString(tb) {
			// the same uninterpreted ordering the code's string comparisons are translated to
			sym := q("strless")
			g.R.declareFun(sym, "(declare-fun |strless| (Int Int) Bool)")
			// strictly less implies different: the ordering is irreflexive without a quantified axiom
			less := func(l, r string) string { return S("and", Not(S("=", l, r)), S(sym, l, r)) }
			switch x.Op {
			case "<":
				return less(a, b), tBool_, nil
			case ">":
				return less(b, a), tBool_, nil
			case "<=":
				return Not(less(b, a)), tBool_, nil
			default:
				return Not(less(a, b)), tBool_, nil
			}
		}
		if g.sortOfSpec(ta) == "Int" && g.sortOfSpec(tb) == "Real" {
			a = S("to_real", a)
		} else if g.sortOfSpec(ta) == "Real" && g.sortOfSpec(tb) == "Int" {
			b = S("to_real", b)
		}
		return S(x.Op, a, b), tBool_, nil
	case "+":
		if isString(ta) {
			return S("strcat", a, b), ta, nil
		}
		return S("+", a, b), ta, nil
	case "++":
		return S("strcat", a, b), ta, nil
	case "-":
		return S("-", a, b), ta, nil
	case "*":
		return S("*", a, b), ta, nil
	case "/":
		if isFloat(ta) {
			return S("/", a, b), ta, nil
		}
		return S("godiv", a, b), ta, nil
	case "%":
		return S("gorem", a, b), ta, nil
	case "&":
		return S("bvand", a, b), ta, nil
	case "|":
		return S("bvor", a, b), ta, nil
	case "^":
		return S("bvxor", a, b), ta, nil
	case "<<":
		return S("bvshl", a, b), ta, nil
	case ">>":
		return S("bvshr", a, b), ta, nil
	}
	return "", nil, fmt.Errorf("unknown operator %s", x.Op)
}

// ghostArray returns the heap array backing a mutable ghost function.
func (g *fnGen) ghostArray(gf *GhostFunc) (name, srt string, err error) {
	if len(gf.Params) != 1 {
		return "", "", fmt.Errorf("ghost func %s must have exactly one parameter", gf.Name)
	}
	pkg := g.P.typesPkg(gf.PkgPath)
	kt, err := g.P.resolveType(gf.Params[0].T.Text, pkg, g.P.cs.Imports[gf.PkgPath])
	if err != nil {
		return "", "", err
	}
	vt, err := g.P.resolveType(gf.Result, pkg, g.P.cs.Imports[gf.PkgPath])
	if err != nil {
		return "", "", err
	}
	return "G!" + gf.Name, "(Array " + g.sortOfSpec(kt) + " " + g.sortOfSpec(vt) + ")", nil
}

func (g *fnGen) ghostTypesOf(gf *GhostFunc) (params []types.Type, res types.Type, err error) {
	pkg := g.P.typesPkg(gf.PkgPath)
	for _, p := range gf.Params {
		t, err := g.P.resolveType(p.T.Text, pkg, g.P.cs.Imports[gf.PkgPath])
		if err != nil {
			return nil, nil, err
		}
		params = append(params, t)
	}
	res, err = g.P.resolveType(gf.Result, pkg, g.P.cs.Imports[gf.PkgPath])
	return
}

func (g *fnGen) evalCall(x *SCall, env *evalEnv) (string, types.Type, error) {
	id, isIdent := x.Fun.(*SIdent)
	if !isIdent {
		return "", nil, fmt.Errorf("cannot call %s in a contract", x.Fun)
	}
	argn := func(n int) error {
		if len(x.Args) != n {
			return fmt.Errorf("%s expects %d argument(s)", id.Name, n)
		}
		return nil
	}
	switch id.Name {
	case "old":
		if err := argn(1); err != nil {
			return "", nil, err
		}
		ne := *env
		ne.cur = env.old
		if ne.mode == "post" {
			ne.mode = "pre"
		}
		return g.eval(x.Args[0], &ne)
	case "emptyset":
		// emptyset(): the constant-false map from strings
		return "((as const (Array Int Bool)) false)", &MathMap{tStr_, tBool_}, nil
	case "deref":
		// deref(p): the value a pointer points to
		if err := argn(1); err != nil {
			return "", nil, err
		}
		v, t, err := g.eval(x.Args[0], env)
		if err != nil {
			return "", nil, err
		}
		if _, ok := t.Underlying().(*types.Pointer); !ok {
			return "", nil, fmt.Errorf("deref: %s is not a pointer", t)
		}
		return g.loadAt(env.cur, deref(t), v), deref(t), nil
	case "atlock":
		// atlock(e): e in the state right after the most recent lock acquisition
		if err := argn(1); err != nil {
			return "", nil, err
		}
		ne := *env
		if env.cur.lockSnap != nil {
			ne.cur = env.cur.lockSnap
		} else {
			ne.cur = env.old
		}
		if ne.mode == "post" {
			ne.mode = "pre"
		}
		return g.eval(x.Args[0], &ne)
	case "cur":
		// cur(e): e evaluated over the current values of locals (in postconditions plain names are entry values)
		if err := argn(1); err != nil {
			return "", nil, err
		}
		ne := *env
		ne.mode = "inv"
		return g.eval(x.Args[0], &ne)
	case "sbase", "soff":
		if err := argn(1); err != nil {
			return "", nil, err
		}
		v, t, err := g.eval(x.Args[0], env)
		if err != nil {
			return "", nil, err
		}
		if _, isIface := t.Underlying().(*types.Interface); isIface {
			// an interface holding a slice (e.g. the `x any` of sort.Slice): unbox the slice header
			v = g.R.unboxT(types.NewSlice(types.Typ[types.Uint8]), S("i-val", v))
		} else if _, ok := t.Underlying().(*types.Slice); !ok {
			return "", nil, fmt.Errorf("%s: not a slice", id.Name)
		}
		if id.Name == "sbase" {
			return S("s-base", v), tInt_, nil
		}
		return S("s-off", v), tInt_, nil
	case "len", "cap":
		if err := argn(1); err != nil {
			return "", nil, err
		}
		v, t, err := g.eval(x.Args[0], env)
		if err != nil {
			return "", nil, err
		}
		switch t.Underlying().(type) {
		case *types.Basic:
			return S("strlen", v), tInt_, nil
		case *types.Slice:
			if id.Name == "cap" {
				return S("s-cap", v), tInt_, nil
			}
			return S("s-len", v), tInt_, nil
		case *types.Array:
			return fmt.Sprint(t.Underlying().(*types.Array).Len()), tInt_, nil
		}
		return "", nil, fmt.Errorf("len of %s not supported in contracts", t)
	case "fresh":
		if err := argn(1); err != nil {
			return "", nil, err
		}
		v, t, err := g.eval(x.Args[0], env)
		if err != nil {
			return "", nil, err
		}
		if _, ok := t.Underlying().(*types.Slice); ok {
			v = S("s-base", v)
		}
		if _, ok := t.Underlying().(*types.Interface); ok {
			v = S("i-val", v)
		}
		base := env.old.alloc
		return S(">=", v, base), tBool_, nil
	case "istype":
		if err := argn(2); err != nil {
			return "", nil, err
		}
		v, _, err := g.eval(x.Args[0], env)
		if err != nil {
			return "", nil, err
		}
		te, ok := x.Args[1].(*STypeExpr)
		if !ok {
			return "", nil, fmt.Errorf("istype: second argument must be a type")
		}
		ty, err := g.P.resolveType(te.Text, env.scopePkg(), env.imports())
		if err != nil {
			return "", nil, err
		}
		if it, isIface := ty.Underlying().(*types.Interface); isIface {
			if it.NumMethods() == 0 {
				return Not(S("=", S("i-tag", v), "0")), tBool_, nil
			}
			return S(g.R.implSym(ty), S("i-tag", v)), tBool_, nil
		}
		return S("=", S("i-tag", v), fmt.Sprint(g.R.tagOf(ty))), tBool_, nil
	case "as":
		// as(e, T): the T held by the interface value e (meaningful where istype(e, T) holds)
		if err := argn(2); err != nil {
			return "", nil, err
		}
		v, _, err := g.eval(x.Args[0], env)
		if err != nil {
			return "", nil, err
		}
		te, ok := x.Args[1].(*STypeExpr)
		if !ok {
			return "", nil, fmt.Errorf("as: second argument must be a type")
		}
		ty, err := g.P.resolveType(te.Text, env.scopePkg(), env.imports())
		if err != nil {
			return "", nil, err
		}
		if _, isIface := ty.Underlying().(*types.Interface); isIface {
			return v, ty, nil
		}
		return g.R.unboxT(ty, S("i-val", v)), ty, nil
	case "typeof":
		if err := argn(1); err != nil {
			return "", nil, err
		}
		v, _, err := g.eval(x.Args[0], env)
		if err != nil {
			return "", nil, err
		}
		return S("i-tag", v), tInt_, nil
	case "tagof":
		te, ok := x.Args[0].(*STypeExpr)
		if !ok {
			return "", nil, fmt.Errorf("tagof: argument must be a type")
		}
		ty, err := g.P.resolveType(te.Text, env.scopePkg(), env.imports())
		if err != nil {
			return "", nil, err
		}
		return fmt.Sprint(g.R.tagOf(ty)), tInt_, nil
	case "unchanged":
		var cs []string
		for _, a := range x.Args {
			now, _, err := g.eval(a, env)
			if err != nil {
				return "", nil, err
			}
			ne := *env
			ne.cur = env.old
			if ne.mode == "post" {
				ne.mode = "pre"
			}
			was, _, err := g.eval(a, &ne)
			if err != nil {
				return "", nil, err
			}
			cs = append(cs, S("=", now, was))
		}
		return And(cs...), tBool_, nil
	case "store":
		if err := argn(3); err != nil {
			return "", nil, err
		}
		m, mt, err := g.eval(x.Args[0], env)
		if err != nil {
			return "", nil, err
		}
		k, _, err := g.eval(x.Args[1], env)
		if err != nil {
			return "", nil, err
		}
		v, _, err := g.eval(x.Args[2], env)
		if err != nil {
			return "", nil, err
		}
		return S("store", m, k, v), mt, nil
	case "haskey", "mapget":
		if err := argn(2); err != nil {
			return "", nil, err
		}
		m, mt, err := g.eval(x.Args[0], env)
		if err != nil {
			return "", nil, err
		}
		k, _, err := g.eval(x.Args[1], env)
		if err != nil {
			return "", nil, err
		}
		mm, ok := mt.Underlying().(*types.Map)
		if !ok {
			return "", nil, fmt.Errorf("%s: first argument must be a Go map", id.Name)
		}
		dom, val := g.mapDomVal(env.cur, mm, m)
		if id.Name == "haskey" {
			return And(Not(S("=", m, "0")), S("select", dom, k)), tBool_, nil
		}
		// Go semantics: the zero value when the key is absent
		return S("ite", And(Not(S("=", m, "0")), S("select", dom, k)), S("select", val, k), g.R.zero(mm.Elem())), mm.Elem(), nil
	case "mapdom", "mapvals":
		if err := argn(1); err != nil {
			return "", nil, err
		}
		m, mt, err := g.eval(x.Args[0], env)
		if err != nil {
			return "", nil, err
		}
		mm, ok := mt.Underlying().(*types.Map)
		if !ok {
			return "", nil, fmt.Errorf("%s: argument must be a Go map", id.Name)
		}
		dom, val := g.mapDomVal(env.cur, mm, m)
		if id.Name == "mapdom" {
			return dom, &MathMap{mm.Key(), tBool_}, nil
		}
		return val, &MathMap{mm.Key(), mm.Elem()}, nil
	case "addr":
		// addr(x.f): interior pointer of an inline struct field
		if err := argn(1); err != nil {
			return "", nil, err
		}
		sel, ok := x.Args[0].(*SSel)
		if !ok {
			return "", nil, fmt.Errorf("addr: want addr(x.f)")
		}
		xv, xt, err := g.eval(sel.X, env)
		if err != nil {
			return "", nil, err
		}
		structT := deref(xt)
		stt, ok := structT.Underlying().(*types.Struct)
		if !ok {
			return "", nil, fmt.Errorf("addr: %s is not a struct pointer", xt)
		}
		for i := 0; i < stt.NumFields(); i++ {
			if stt.Field(i).Name() == sel.Sel {
				return g.fieldAddrTerm(structT, i, xv), types.NewPointer(stt.Field(i).Type()), nil
			}
		}
		return "", nil, fmt.Errorf("addr: no field %s", sel.Sel)
	case "int", "int64", "int32", "uint64", "uint32", "byte", "uint8", "rune", "uint", "int8", "int16", "uint16":
		if err := argn(1); err != nil {
			return "", nil, err
		}
		v, t, err := g.eval(x.Args[0], env)
		if err != nil {
			return "", nil, err
		}
		to := types.Universe.Lookup(id.Name).Type()
		if isFloat(t) {
			return S("f2i", v), to, nil
		}
		return v, to, nil
	case "float64":
		v, t, err := g.eval(x.Args[0], env)
		if err != nil {
			return "", nil, err
		}
		if isFloat(t) {
			return v, tFloat_, nil
		}
		return S("to_real", v), tFloat_, nil
	case "boxed":
		// boxed(e): payload of an interface as Int
		v, _, err := g.eval(x.Args[0], env)
		if err != nil {
			return "", nil, err
		}
		return S("i-val", v), tInt_, nil
	}
	if gf, ok := g.P.cs.Ghosts[id.Name]; ok && gf.Macro {
		if len(x.Args) != len(gf.Params) {
			return "", nil, fmt.Errorf("%s expects %d argument(s)", gf.Name, len(gf.Params))
		}
		ne := *env
		ne.bound = map[string]binding{}
		for k, v := range env.bound {
			ne.bound[k] = v
		}
		for i, a := range x.Args {
			v, at, err := g.eval(a, env)
			if err != nil {
				return "", nil, err
			}
			pt, err := g.P.resolveType(gf.Params[i].T.Text, g.P.typesPkg(gf.PkgPath), g.P.cs.Imports[gf.PkgPath])
			if err != nil {
				return "", nil, err
			}
			if isNilType(at) {
				v, at = g.R.zero(pt), pt
			}
			v, at = g.coerceTo(v, at, pt)
			ne.bound[gf.Params[i].Name] = binding{v, at}
		}
		// the body is resolved in the declaring package's scope, against the caller's state
		ne.pkg = g.P.typesPkg(gf.PkgPath)
		ne.macroDepth = env.macroDepth + 1
		if ne.macroDepth > 8 {
			return "", nil, fmt.Errorf("pred %s: expansion too deep", gf.Name)
		}
		ne.names = nil
		if env.outer != nil {
			ne.outer = env.outer
		} else {
			ne.outer = env
		}
		saveMode := ne.mode
		ne.mode = "callee" // only bound names and package scope are visible inside a pred
		t, ty, err := g.eval(gf.Def, &ne)
		_ = saveMode
		return t, ty, err
	}
	if gf, ok := g.P.cs.Ghosts[id.Name]; ok {
		ptypes, rtype, err := g.ghostTypesOf(gf)
		if err != nil {
			return "", nil, err
		}
		if len(x.Args) != len(ptypes) {
			return "", nil, fmt.Errorf("%s expects %d argument(s)", gf.Name, len(ptypes))
		}
		var args []string
		for i, a := range x.Args {
			v, at, err := g.eval(a, env)
			if err != nil {
				return "", nil, err
			}
			if isNilType(at) {
				v = g.R.zero(ptypes[i])
			} else {
				v, _ = g.coerceTo(v, at, ptypes[i])
			}
			args = append(args, v)
		}
		if gf.Mutable {
			name, srt, err := g.ghostArray(gf)
			if err != nil {
				return "", nil, err
			}
			arr := g.heapArray(env.cur, name, srt)
			return S("select", arr, args[0]), rtype, nil
		}
		sym := g.declareSpecFunc(gf, ptypes, rtype)
		if len(args) == 0 {
			return sym, rtype, nil
		}
		return S(sym, args...), rtype, nil
	}
	return "", nil, fmt.Errorf("unknown function %q in contract", id.Name)
}

func (g *fnGen) declareSpecFunc(gf *GhostFunc, ptypes []types.Type, rtype types.Type) string {
	sym := q("spec!" + gf.Name)
	if _, ok := g.R.uninterp[sym]; ok {
		return sym
	}
	var ps []string
	for _, p := range ptypes {
		ps = append(ps, g.sortOfSpec(p))
	}
	if gf.Def == nil {
		g.R.declareFun(sym, fmt.Sprintf("(declare-fun %s (%s) %s)", sym, strings.Join(ps, " "), g.sortOfSpec(rtype)))
		return sym
	}
	// defined function: evaluate body with parameters bound
	g.R.declareFun(sym, "") // reserve (recursion)
	env := &evalEnv{g: g, cur: g.entry, old: g.entry, mode: "axiom", bound: map[string]binding{}, pkg: g.P.typesPkg(gf.PkgPath)}
	var decl []string
	for i, p := range gf.Params {
		ps := q("a!" + p.Name)
		env.bound[p.Name] = binding{ps, ptypes[i]}
		decl = append(decl, "("+ps+" "+g.sortOfSpec(ptypes[i])+")")
	}
	body, _, err := g.eval(gf.Def, env)
	if err != nil {
		g.stale = append(g.stale, fmt.Sprintf("spec func %s: %v", gf.Name, err))
		g.R.uninterp[sym] = fmt.Sprintf("(declare-fun %s (%s) %s)", sym, strings.Join(ps, " "), g.sortOfSpec(rtype))
		return sym
	}
	kw := "define-fun"
	if gf.Rec {
		kw = "define-fun-rec"
	}
	g.R.uninterp[sym] = fmt.Sprintf("(%s %s (%s) %s %s)", kw, sym, strings.Join(decl, " "), g.sortOfSpec(rtype), body)
	return sym
}

// emitAxioms asserts every axiom whose symbols resolve in this function's universe.
func (g *fnGen) emitAxioms() {
	for _, ax := range g.P.cs.Axioms {
		if ax.Lemma {
			continue
		}
		if !g.axiomRelevant(ax) {
			continue
		}
		env := &evalEnv{g: g, cur: g.entry, old: g.entry, mode: "axiom", pkg: g.P.typesPkg(ax.PkgPath)}
		t, err := g.evalBool(ax.E, env)
		if err != nil {
			g.stale = append(g.stale, fmt.Sprintf("axiom %s: %v", ax.Name, err))
			continue
		}
		g.assert(t)
		g.assumptions["axiom "+ax.Name+": "+ax.Src] = true
	}
}

// axioms are attached to the packages that declare them and to functions whose
// contracts mention one of the spec functions the axiom mentions.
func (g *fnGen) axiomRelevant(ax *Axiom) bool {
	if g.ct == nil {
		return false
	}
	if ax.PkgPath != "" && ax.PkgPath == g.ct.PkgPath {
		return true
	}
	// only declared spec / ghost functions count: every contract mentions len(), old(), ... and would
	// otherwise pull in every axiom that happens to use them
	names := map[string]bool{}
	for n := range specFuncsIn(ax.E) {
		if _, declared := g.P.cs.Ghosts[n]; declared {
			names[n] = true
		}
	}
	return g.mentionsAny(names)
}

func specFuncsIn(e SExpr) map[string]bool {
	out := map[string]bool{}
	var walk func(e SExpr)
	walk = func(e SExpr) {
		switch x := e.(type) {
		case *SCall:
			if id, ok := x.Fun.(*SIdent); ok {
				out[id.Name] = true
			}
			for _, a := range x.Args {
				walk(a)
			}
		case *SBin:
			walk(x.L)
			walk(x.R)
		case *SUn:
			walk(x.X)
		case *SCond:
			walk(x.C)
			walk(x.A)
			walk(x.B)
		case *SQuant:
			walk(x.Body)
		case *SSel:
			walk(x.X)
		case *SIndex:
			walk(x.X)
			walk(x.I)
		case *SSlice:
			walk(x.X)
			if x.Lo != nil {
				walk(x.Lo)
			}
			if x.Hi != nil {
				walk(x.Hi)
			}
		case *SAssert:
			walk(x.X)
		}
	}
	walk(e)
	return out
}

func (g *fnGen) mentionsAny(fs map[string]bool) bool {
	// names mentioned by an expression, preds (macros) expanded: a contract that says hl(h) mentions nl
	var mentions func(e SExpr, depth int) bool
	mentions = func(e SExpr, depth int) bool {
		if e == nil {
			return false
		}
		for f := range specFuncsIn(e) {
			if fs[f] {
				return true
			}
			if gf, ok := g.P.cs.Ghosts[f]; ok && gf.Macro && gf.Def != nil && depth < 4 {
				if mentions(gf.Def, depth+1) {
					return true
				}
			}
		}
		return false
	}
	check := func(cs []Clause) bool {
		for _, c := range cs {
			if mentions(c.E, 0) {
				return true
			}
		}
		return false
	}
	if check(g.ct.Requires) || check(g.ct.Ensures) {
		return true
	}
	for _, l := range g.ct.Loops {
		if check(l.Invariants) {
			return true
		}
	}
	for _, h := range g.ct.Hooks {
		if mentions(h.E, 0) {
			return true
		}
	}
	return false
}

// evalLoc resolves an assignable location of the contract language.
func (g *fnGen) evalLoc(e SExpr, env *evalEnv) ([]assignLoc, error) {
	switch x := e.(type) {
	case *SSel:
		// T.f (whole array) ?
		if id, ok := x.X.(*SIdent); ok {
			if _, _, err := g.evalIdent(id.Name, env); err != nil {
				if obj := env.scopePkg().Scope().Lookup(id.Name); obj != nil {
					if tn, ok := obj.(*types.TypeName); ok {
						return g.fieldLocs(tn.Type(), x.Sel, "")
					}
				}
			}
		}
		xv, xt, err := g.eval(x.X, env)
		if err != nil {
			return nil, err
		}
		if _, isPtr := xt.Underlying().(*types.Pointer); !isPtr {
			return nil, fmt.Errorf("assigns %s: base is not a pointer", e)
		}
		return g.fieldLocs(deref(xt), x.Sel, xv)
	case *SIdent:
		if gf, ok := g.P.cs.Ghosts[x.Name]; ok && gf.Mutable {
			n, srt, err := g.ghostArray(gf)
			if err != nil {
				return nil, err
			}
			return []assignLoc{{n, "", srt}}, nil
		}
		return nil, fmt.Errorf("assigns %s: not a location", x.Name)
	case *SCall:
		id, _ := x.Fun.(*SIdent)
		if id == nil {
			return nil, fmt.Errorf("assigns %s: not a location", e)
		}
		if gf, ok := g.P.cs.Ghosts[id.Name]; ok && gf.Mutable {
			n, srt, err := g.ghostArray(gf)
			if err != nil {
				return nil, err
			}
			k, _, err := g.eval(x.Args[0], env)
			if err != nil {
				return nil, err
			}
			return []assignLoc{{n, k, srt}}, nil
		}
		switch id.Name {
		case "elems":
			v, t, err := g.eval(x.Args[0], env)
			if err != nil {
				return nil, err
			}
			sl, ok := t.Underlying().(*types.Slice)
			if !ok {
				return nil, fmt.Errorf("elems: not a slice")
			}
			return []assignLoc{{g.elemArrayName(sl.Elem()), S("s-base", v), "(Array Int (Array Int " + g.R.sortOf(sl.Elem()) + "))"}}, nil
		case "mapof":
			v, t, err := g.eval(x.Args[0], env)
			if err != nil {
				return nil, err
			}
			mt, ok := t.Underlying().(*types.Map)
			if !ok {
				return nil, fmt.Errorf("mapof: not a map")
			}
			var locs []assignLoc
			g.mapArrays(mt, func(n, srt string) { locs = append(locs, assignLoc{n, v, srt}) })
			return locs, nil
		case "deref":
			v, t, err := g.eval(x.Args[0], env)
			if err != nil {
				return nil, err
			}
			pt := deref(t)
			return []assignLoc{{g.cellArrayName(pt), v, "(Array Int " + g.R.sortOf(pt) + ")"}}, nil
		}
	}
	return nil, fmt.Errorf("assigns %s: unsupported location form", e)
}

func (g *fnGen) fieldLocs(structT types.Type, field, key string) ([]assignLoc, error) {
	obj, index := lookupFieldAnyPkg(structT, field)
	if obj == nil {
		return nil, fmt.Errorf("no field %s in %s", field, structT)
	}
	cur := structT
	for _, idx := range index[:len(index)-1] {
		stt := cur.Underlying().(*types.Struct)
		if key != "" {
			key = g.fieldAddrTerm(cur, idx, key)
		}
		cur = stt.Field(idx).Type()
		if p, ok := cur.Underlying().(*types.Pointer); ok {
			return nil, fmt.Errorf("assigns through embedded pointer %s not supported", p)
		}
	}
	f := cur.Underlying().(*types.Struct).Field(index[len(index)-1])
	if _, isStruct := f.Type().Underlying().(*types.Struct); isStruct {
		// all arrays of the inline struct, keyed by the interior pointer
		var locs []assignLoc
		ik := ""
		if key != "" {
			ik = g.fieldAddrTerm(cur, index[len(index)-1], key)
		}
		stt := f.Type().Underlying().(*types.Struct)
		for i := 0; i < stt.NumFields(); i++ {
			ff := stt.Field(i)
			locs = append(locs, assignLoc{g.fieldArrayName(f.Type(), ff), ik, "(Array Int " + g.R.sortOf(ff.Type()) + ")"})
		}
		return locs, nil
	}
	return []assignLoc{{g.fieldArrayName(cur, f), key, "(Array Int " + g.R.sortOf(f.Type()) + ")"}}, nil
}

// coerceTo boxes a concrete value into an interface when the target type is an interface.
func (g *fnGen) coerceTo(v string, from, to types.Type) (string, types.Type) {
	if _, toI := to.Underlying().(*types.Interface); toI {
		if _, fromI := from.Underlying().(*types.Interface); !fromI {
			if _, isMM := from.(*MathMap); !isMM {
				return S("mk-iface", fmt.Sprint(g.R.tagOf(from)), g.R.boxT(from, v)), to
			}
		}
		return v, to
	}
	return v, from
}
